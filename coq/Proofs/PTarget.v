(* C09: a foreign node / branch / tree appended under an emdpath target goes exactly there. *)
From Emd Require Import Base.Prelude Model.H5 Model.Emd Model.Reader Generated.Tables Proofs.PTree Proofs.PAppend Proofs.PRead.

(* ---------- update_at: the object at h is transformed, nothing off that path changes *)
Fixpoint is_pref (a b : path) : bool :=
  match a, b with
  | [], _ => true
  | x :: a', y :: b' => String.eqb x y && is_pref a' b'
  | _ :: _, [] => false
  end.

Lemma update_at_spec : forall h f g w g', lookup f h = Some g -> w g = Ok g' ->
  exists f', update_at f h w = Ok f' /\ lookup f' h = Some g' /\
             (forall q, is_pref q h = false -> is_pref h q = false -> lookup f' q = lookup f q) /\
             oattrs f' = match h with [] => oattrs g' | _ => oattrs f end.
Proof.
  induction h as [|k h IH]; intros f g w g' Hl Hw.
  - cbn in Hl. injection Hl as <-. exists g'. cbn. repeat split; auto. intros q H. destruct q; discriminate.
  - cbn [lookup] in Hl. destruct f as [a l|]; [|discriminate]. destruct (get l k) as [c|] eqn:Ek; [|discriminate].
    destruct (IH c g w g' Hl Hw) as (c' & Hu & Hl' & Hfr & _).
    exists (G a (set l k c')). cbn [update_at]. rewrite Ek, Hu. cbn [bind]. split; [reflexivity|]. split.
    + cbn [lookup]. rewrite get_set_same. exact Hl'.
    + split; [|reflexivity]. intros q H1 H2. destruct q as [|k' q']; [discriminate|]. cbn [is_pref] in H1, H2. cbn [lookup].
      destruct (String.eqb k' k) eqn:E.
      * rewrite String.eqb_sym, E in H2. cbn [andb] in H1, H2.
        apply String.eqb_eq in E. subst k'. rewrite get_set_same, Ek. apply Hfr; assumption.
      * rewrite get_set_other by (intros ->; rewrite String.eqb_refl in E; discriminate). reflexivity.
Qed.

(* ---------- a foreign tree (a root name the file does not have) placed under an emdpath *)
Theorem foreign_node_with_branch_under_emdpath root tp data a m f ep rn treepath h ga gl :
  mem (rname root) (rootgroups f) = false -> emdpath a = Some ep -> ep <> "" ->
  parse_emdpath ep = (rn, treepath) -> emd_target f rn treepath = Ok h -> lookup f h = Some (G ga gl) ->
  tp <> [] -> rwalk root tp = Some data -> tree a = Some true -> ok_tree data -> ~ In (rname data) (keys gl) ->
  exists f', append_existing root tp a m f = Ok f' /\
             lookup f' h = Some (G ga (gl ++ [(rname data, enc data)])) /\
             (forall q, is_pref q h = false -> is_pref h q = false -> lookup f' q = lookup f q).
Proof.
  intros Hroot Hep Hne Hparse Htarget Hl Htp Hw Htree Hok Hnew.
  destruct (update_at_spec h f (G ga gl) (fun g => do g1 <- write_single_node data g; in_child (rname data) (write_tree data) g1)
              (G ga (gl ++ [(rname data, enc data)])) Hl (new_child_written_whole data ga gl Hok Hnew)) as (f' & Hu & Hl' & Hfr & _).
  exists f'. split; [|split; [exact Hl'|exact Hfr]].
  unfold append_existing. rewrite Hw, Hroot, Hep.
  destruct ep as [|c0 r0]; [congruence|]. rewrite Hparse. rewrite Htarget. cbn [bind].
  destruct tp as [|x q]; [congruence|]. rewrite Htree. exact Hu.
Qed.

Theorem foreign_whole_tree_under_emdpath root a m f ep rn treepath h ga gl :
  mem (rname root) (rootgroups f) = false -> emdpath a = Some ep -> ep <> "" ->
  parse_emdpath ep = (rn, treepath) -> emd_target f rn treepath = Ok h -> lookup f h = Some (G ga gl) ->
  tree a <> Some false -> ok_tree root -> (forall k, In k (rkids root) -> ~ In (rname k) (keys gl)) ->
  exists f', append_existing root [] a m f = Ok f' /\
             lookup f' h = Some (G ga (gl ++ enc_kids (rkids root))) /\
             (forall q, is_pref q h = false -> is_pref h q = false -> lookup f' q = lookup f q).
Proof.
  intros Hroot Hep Hne Hparse Htarget Hl Htree Hok Hnew.
  destruct (update_at_spec h f (G ga gl) (write_tree root) (G ga (gl ++ enc_kids (rkids root))) Hl (write_tree_spec root Hok ga gl Hnew)) as (f' & Hu & Hl' & Hfr & _).
  exists f'. split; [|split; [exact Hl'|exact Hfr]].
  unfold append_existing. cbn [rwalk]. rewrite Hroot, Hep.
  destruct ep as [|c0 r0]; [congruence|]. rewrite Hparse. rewrite Htarget. cbn [bind].
  destruct (tree a) as [[|]|]; [exact Hu|congruence|exact Hu].
Qed.

(* ---------- a targeted append within one tree: save(path, root, mode = append, emdpath = "root/a/b") merges the runtime
   branch at a/b into the file's branch at a/b, and nothing off that path changes *)
From Emd Require Import Proofs.P05 Proofs.PUnion.

Lemma validate_names_enc n : ok_tree n -> forall p k acc, rwalk n p = Some k -> validate_names (enc n) p acc = VInside (acc ++ p).
Proof.
  induction n as [c nm t r m ks IH] using rnode_ind'. intros Hok p k acc Hw. destruct p as [|x q]; [cbn; rewrite app_nil_r; reflexivity|].
  cbn [rwalk rkids] in Hw. destruct (rget ks x) as [kid|] eqn:E; [|discriminate].
  pose proof (lookup_enc _ Hok [x] kid) as Hl. cbn [rwalk rkids] in Hl. rewrite E in Hl. specialize (Hl eq_refl).
  rewrite enc_eq in Hl |- *. cbn [validate_names]. cbn [lookup] in Hl.
  destruct (get (shallow_links (RN c nm t r m ks) ++ enc_kids (rkids (RN c nm t r m ks))) x) as [o|]; [|discriminate].
  cbn [lookup] in Hl. injection Hl as ->. rewrite (enc_eq kid) at 1. cbn [is_group].
  apply ok_tree_inv in Hok. destruct Hok as (_ & _ & Hks). cbn [rkids] in Hks. apply rget_in in E. destruct E as (Hin & _).
  rewrite Forall_forall in IH, Hks. rewrite (IH kid Hin (Hks kid Hin) q k (acc ++ [x]) Hw). rewrite <- app_assoc. reflexivity.
Qed.

Lemma parse_emdpath_join r p : r <> "" -> Forall (fun s => no_slash s = true) (r :: p) ->
  parse_emdpath (join_slash (r :: p)) = (r, join_slash p).
Proof.
  intros Hr Hns. unfold parse_emdpath.
  assert (match join_slash (r :: p) with String c0 rest => if Ascii.eqb c0 "/"%char then rest else join_slash (r :: p) | EmptyString => join_slash (r :: p) end = join_slash (r :: p)) as ->.
  { inversion Hns as [|? ? Hrns _]; subst. destruct r as [|c0 r0]; [congruence|]. cbn [no_slash] in Hrns. apply andb_true_iff in Hrns. destruct Hrns as (Hc & _).
    apply negb_true_iff in Hc. destruct p; cbn [join_slash String.append]; rewrite Hc; reflexivity. }
  rewrite (split_join (r :: p)); [reflexivity|discriminate|exact Hns].
Qed.

Theorem targeted_append_within_a_tree c0 m root p km kn md tr :
  In md appendmode -> tr <> Some false ->
  rcls m = CRoot -> rname root = rname m -> rmds root = [] -> ok_tree m ->
  rwalk m p = Some km -> rwalk root p = Some kn -> compat km kn ->
  Forall (fun s => s <> "" /\ no_slash s = true) (rname m :: p) ->
  exists f', append_existing root [] (WA md tr (Some (join_slash (rname m :: p)))) md (whole_file c0 m) = Ok f' /\
             lookup f' (rname m :: p) = Some (enc (merge km kn)) /\
             (forall q, is_pref q (rname m :: p) = false -> is_pref (rname m :: p) q = false -> lookup f' q = lookup (whole_file c0 m) q).
Proof.
  intros Hmd Htr Hc Hname Hmds Hok Hwm Hwr Hcompat Hnames.
  assert (Forall (fun s => no_slash s = true) (rname m :: p)) as Hns by (eapply Forall_impl; [|exact Hnames]; cbn; intros a Ha; apply Ha).
  assert (Forall (fun s => s <> "") (rname m :: p)) as Hnn by (eapply Forall_impl; [|exact Hnames]; cbn; intros a Ha; apply Ha).
  inversion Hnn as [|? ? Hrne Hnnp]; subst. inversion Hns as [|? ? _ Hnsp]; subst.
  assert (mem md appendovermode = false) as Hao by (destruct Hmd as [<-|[<-|[<-|[]]]]; reflexivity).
  assert (ok_tree km) as Hokm.
  { clear -Hok Hwm. revert m km Hok Hwm. induction p as [|x q IH]; intros m km Hok Hwm; [injection Hwm as <-; exact Hok|].
    cbn [rwalk] in Hwm. destruct (rget (rkids m) x) as [kid|] eqn:E; [|discriminate]. apply rget_in in E. destruct E as (Hin & _).
    apply ok_tree_inv in Hok. destruct Hok as (_ & _ & Hks). rewrite Forall_forall in Hks. apply (IH kid km (Hks kid Hin) Hwm). }
  assert (lookup (whole_file c0 m) (rname m :: p) = Some (enc km)) as Hl.
  { unfold whole_file. cbn [lookup]. rewrite get_first. apply lookup_enc; assumption. }
  destruct (update_at_spec (rname m :: p) (whole_file c0 m) (enc km) (append_branch false kn) (enc (merge km kn)) Hl (append_is_union km kn Hokm Hcompat))
    as (f' & Hu & Hl' & Hfr & _).
  exists f'. split; [|split; [exact Hl'|exact Hfr]].
  unfold append_existing. cbn [rwalk emdpath tree].
  rewrite (rootgroups_whole c0 m Hc). rewrite Hname. cbn [mem]. rewrite String.eqb_refl.
  assert (join_slash (rname m :: p) <> "") as Hjne.
  { destruct (rname m) as [|c1 r1] eqn:E; [congruence|]. destruct p; cbn [join_slash String.append]; discriminate. }
  assert ((match join_slash (rname m :: p) with "" => true | String _ _ => false end) = false) as -> by (destruct (join_slash (rname m :: p)); [congruence|reflexivity]).
  rewrite (parse_emdpath_join (rname m) p Hrne Hns). rewrite Hao.
  (* the target *)
  assert (emd_target (whole_file c0 m) (rname m) (join_slash p) = Ok (rname m :: p)) as Ht.
  { unfold emd_target, whole_file. cbn [olinks]. rewrite get_first. unfold validate_treepath.
    destruct p as [|x q].
    - cbn [join_slash]. change (split_slash "") with [""]. cbn [remove_first_empty String.eqb]. cbn [validate_names app]. reflexivity.
    - rewrite (split_join (x :: q)) by (try discriminate; exact Hnsp). rewrite (remove_first_empty_none _ Hnnp).
      rewrite (validate_names_enc m Hok (x :: q) km [] Hwm). reflexivity. }
  rewrite Ht. cbn [bind]. rewrite Hmds.
  assert (in_child (rname m) (append_root_metadata false []) (whole_file c0 m) = Ok (whole_file c0 m)) as ->.
  { unfold in_child, whole_file. cbn [update_at]. rewrite get_first. cbn [update_at append_root_metadata bind set]. rewrite String.eqb_refl. reflexivity. }
  cbn [bind tl]. rewrite Hwr. unfold ow_and_branch.
  destruct tr as [[|]|]; [cbn [bind]; exact Hu|congruence|cbn [bind]; exact Hu].
Qed.

(* ---------- save(path, node, mode = append) for an inner node, no emdpath *)
Lemma ok_tree_walk m : ok_tree m -> forall p k, rwalk m p = Some k -> ok_tree k.
Proof.
  intros Hok p. revert m Hok. induction p as [|x q IH]; intros m Hok k Hw; [injection Hw as <-; exact Hok|].
  cbn [rwalk] in Hw. destruct (rget (rkids m) x) as [kid|] eqn:E; [|discriminate]. apply rget_in in E. destruct E as (Hin & _).
  apply ok_tree_inv in Hok. destruct Hok as (_ & _ & Hks). rewrite Forall_forall in Hks. apply (IH kid (Hks kid Hin) k Hw).
Qed.

Theorem inner_node_append_merges_at_its_own_path c0 m root tp km data md tr :
  In md appendmode -> tr <> Some false ->
  rcls m = CRoot -> rname root = rname m -> rmds root = [] -> ok_tree m ->
  tp <> [] -> rwalk m tp = Some km -> rwalk root tp = Some data -> compat km data ->
  exists f', append_existing root tp (WA md tr None) md (whole_file c0 m) = Ok f' /\
             lookup f' (rname m :: tp) = Some (enc (merge km data)) /\
             (forall q, is_pref q (rname m :: tp) = false -> is_pref (rname m :: tp) q = false -> lookup f' q = lookup (whole_file c0 m) q).
Proof.
  intros Hmd Htr Hc Hname Hmds Hok Htp Hwm Hwr Hcompat.
  assert (mem md appendovermode = false) as Hao by (destruct Hmd as [<-|[<-|[<-|[]]]]; reflexivity).
  pose proof (ok_tree_walk m Hok tp km Hwm) as Hokm.
  assert (lookup (whole_file c0 m) (rname m :: tp) = Some (enc km)) as Hl.
  { unfold whole_file. cbn [lookup]. rewrite get_first. apply lookup_enc; assumption. }
  destruct (update_at_spec (rname m :: tp) (whole_file c0 m) (enc km) (append_branch false data) (enc (merge km data)) Hl (append_is_union km data Hokm Hcompat))
    as (f' & Hu & Hl' & Hfr & _).
  exists f'. split; [|split; [exact Hl'|exact Hfr]].
  unfold append_existing. rewrite Hwr. cbn [emdpath tree]. rewrite Hao.
  rewrite (rootgroups_whole c0 m Hc). rewrite Hname. cbn [mem]. rewrite String.eqb_refl. rewrite Hmds.
  assert (in_child (rname m) (append_root_metadata false []) (whole_file c0 m) = Ok (whole_file c0 m)) as ->.
  { unfold in_child, whole_file. cbn [update_at]. rewrite get_first. cbn [update_at append_root_metadata bind set]. rewrite String.eqb_refl. reflexivity. }
  cbn [bind]. destruct tp as [|x q]; [congruence|].
  assert (get (olinks (whole_file c0 m)) (rname m) = Some (enc m)) as -> by (unfold whole_file; cbn [olinks]; apply get_first).
  rewrite (validate_names_enc m Hok (x :: q) km [] Hwm). cbn [app].
  destruct tr as [[|]|]; [|congruence|exact Hu].
  unfold ow_and_branch. cbn [bind]. exact Hu.
Qed.

Lemma validate_names_beyond n : ok_tree n -> forall q pk x acc, rwalk n q = Some pk -> get (olinks (enc pk)) x = None ->
  validate_names (enc n) (q ++ [x]) acc = VBeyond (acc ++ q).
Proof.
  induction n as [c nm t r m ks IH] using rnode_ind'. intros Hok q pk x acc Hw Hg. destruct q as [|y q'].
  - injection Hw as <-. cbn [app]. rewrite enc_eq in Hg |- *. cbn [validate_names olinks] in *. rewrite Hg. rewrite app_nil_r. reflexivity.
  - cbn [rwalk rkids] in Hw. destruct (rget ks y) as [kid|] eqn:E; [|discriminate].
    pose proof (lookup_enc _ Hok [y] kid) as Hl. cbn [rwalk rkids] in Hl. rewrite E in Hl. specialize (Hl eq_refl).
    rewrite enc_eq in Hl |- *. cbn [app validate_names]. cbn [lookup] in Hl.
    destruct (get (shallow_links (RN c nm t r m ks) ++ enc_kids (rkids (RN c nm t r m ks))) y) as [o|]; [|discriminate].
    cbn [lookup] in Hl. injection Hl as ->. rewrite (enc_eq kid) at 1. cbn [is_group].
    apply ok_tree_inv in Hok. destruct Hok as (_ & _ & Hks). cbn [rkids] in Hks. apply rget_in in E. destruct E as (Hin & _).
    rewrite Forall_forall in IH, Hks. rewrite (IH kid Hin (Hks kid Hin) q' pk x (acc ++ [y]) Hw Hg). rewrite <- app_assoc. reflexivity.
Qed.

Theorem inner_node_one_beyond_the_file_is_written_whole c0 m root q x pk data md :
  In md (appendmode ++ appendovermode) ->
  rcls m = CRoot -> rname root = rname m -> rmds root = [] -> ok_tree m ->
  rwalk m q = Some pk -> get (olinks (enc pk)) x = None ->
  rwalk root (q ++ [x]) = Some data -> rname data = x -> ok_tree data ->
  exists f', append_existing root (q ++ [x]) (WA md (Some true) None) md (whole_file c0 m) = Ok f' /\
             lookup f' (rname m :: q) = Some (G (oattrs (enc pk)) (olinks (enc pk) ++ [(x, enc data)])) /\
             (forall p, is_pref p (rname m :: q) = false -> is_pref (rname m :: q) p = false -> lookup f' p = lookup (whole_file c0 m) p).
Proof.
  intros Hmd Hc Hname Hmds Hok Hwm Hg Hwr Hdn Hokd.
  assert (lookup (whole_file c0 m) (rname m :: q) = Some (enc pk)) as Hl.
  { unfold whole_file. cbn [lookup]. rewrite get_first. apply lookup_enc; assumption. }
  assert ((do g1 <- write_single_node data (enc pk); in_child (rname data) (write_tree data) g1) = Ok (G (oattrs (enc pk)) (olinks (enc pk) ++ [(x, enc data)]))) as Hw.
  { rewrite (enc_eq pk) at 1 2. rewrite (new_child_written_whole data _ _ Hokd); [rewrite Hdn; rewrite (enc_eq pk); reflexivity|].
    rewrite Hdn. rewrite <- (enc_links' pk). apply get_none_notin. exact Hg. }
  destruct (update_at_spec (rname m :: q) (whole_file c0 m) (enc pk) (fun g => do g1 <- write_single_node data g; in_child (rname data) (write_tree data) g1) _ Hl Hw) as (f' & Hu & Hl' & Hfr & _).
  exists f'. split; [|split; [exact Hl'|exact Hfr]].
  unfold append_existing. rewrite Hwr. cbn [emdpath tree].
  rewrite (rootgroups_whole c0 m Hc). rewrite Hname. cbn [mem]. rewrite String.eqb_refl. rewrite Hmds.
  assert (forall ao, in_child (rname m) (append_root_metadata ao []) (whole_file c0 m) = Ok (whole_file c0 m)) as Hid.
  { intros ao. unfold in_child, whole_file. cbn [update_at]. rewrite get_first. cbn [update_at append_root_metadata bind set]. rewrite String.eqb_refl. reflexivity. }
  rewrite Hid. cbn [bind].
  destruct (q ++ [x]) as [|y q0] eqn:Eq; [destruct q; discriminate|]. rewrite <- Eq.
  assert (get (olinks (whole_file c0 m)) (rname m) = Some (enc m)) as -> by (unfold whole_file; cbn [olinks]; apply get_first).
  rewrite (validate_names_beyond m Hok q pk x [] Hwm Hg). cbn [app]. exact Hu.
Qed.

(* ---------- save(path, node, mode = append-over) for an inner node the file has: replaced in its parent, its branch
   merged with replacement below it *)
From Emd Require Import Proofs.PUnionAO.

Lemma update_at_compose : forall p f w1 f1 x w2,
  update_at f p w1 = Ok f1 ->
  update_at f1 (p ++ [x]) w2 = update_at f p (fun g => do g1 <- w1 g; in_child x w2 g1).
Proof.
  induction p as [|k q IH]; intros f w1 f1 x w2 H1.
  - cbn [update_at app] in *. rewrite H1. cbn [bind]. reflexivity.
  - cbn [update_at app] in *. destruct f as [a l|]; [|discriminate]. destruct (get l k) as [c|] eqn:Ek; [|discriminate].
    destruct (update_at c q w1) as [c1|] eqn:E1; cbn [bind] in H1; [|discriminate]. injection H1 as <-.
    cbn [update_at]. rewrite get_set_same. rewrite (IH c w1 c1 x w2 E1).
    destruct (update_at c q (fun g => do g1 <- w1 g; in_child x w2 g1)) as [c2|]; cbn [bind]; [|reflexivity].
    f_equal. f_equal. clear. induction l as [|[k0 v0] r IHr]; cbn [set]; [rewrite String.eqb_refl; reflexivity|].
    destruct (String.eqb k k0) eqn:E; cbn [set]; [rewrite String.eqb_refl; reflexivity|rewrite E, IHr; reflexivity].
Qed.

Lemma init_last (q : path) x : init_path (q ++ [x]) = q /\ last_name (q ++ [x]) = x.
Proof.
  unfold init_path, last_name. split; [apply removelast_last|apply last_last].
Qed.
Lemma path_eqb_refl p : path_eqb p p = true.
Proof. induction p as [|x q IH]; [reflexivity|]. cbn. rewrite String.eqb_refl. exact IH. Qed.

Lemma update_at_first_ok : forall p o (w1 w2 : obj -> res obj) c2,
  update_at o p (fun g => do g1 <- w1 g; w2 g1) = Ok c2 -> exists c1, update_at o p w1 = Ok c1.
Proof.
  induction p as [|k q IH]; intros o w1 w2 c2 H.
  - cbn [update_at] in *. destruct (w1 o) as [g1|]; [eauto|discriminate].
  - cbn [update_at] in *. destruct o as [a l|]; [|discriminate]. destruct (get l k) as [c|]; [|discriminate].
    destruct (update_at c q (fun g => do g1 <- w1 g; w2 g1)) as [c'|] eqn:E; cbn [bind] in H; [|discriminate].
    destruct (IH c w1 w2 c' E) as (c1 & ->). cbn [bind]. eauto.
Qed.

Theorem inner_node_appendover c0 m root q x pk km data md :
  In md appendovermode ->
  rcls m = CRoot -> rname root = rname m -> rmds root = [] -> ok_tree m ->
  rwalk m q = Some pk -> rwalk m (q ++ [x]) = Some km ->
  rwalk root (q ++ [x]) = Some data -> rname data = x ->
  compat_ao (RN CNode "" 0%Z 0 [] [data]) (shallow_links pk) (rkids pk) ->
  exists f', append_existing root (q ++ [x]) (WA md (Some true) None) md (whole_file c0 m) = Ok f' /\
             lookup f' (rname m :: q) = Some (G (node_tags pk) (shallow_links pk ++ enc_kids (aom (RN CNode "" 0%Z 0 [] [data]) (rkids pk)))) /\
             (forall p, is_pref p (rname m :: q) = false -> is_pref (rname m :: q) p = false -> lookup f' p = lookup (whole_file c0 m) p).
Proof.
  intros Hmd Hc Hname Hmds Hok Hwp Hwm Hwr Hdn Hcompat.
  assert (mem md appendovermode = true) as Hao by (destruct Hmd as [<-|[<-|[<-|[<-|[<-|[]]]]]]; reflexivity).
  assert (lookup (whole_file c0 m) (rname m :: q) = Some (enc pk)) as Hl.
  { unfold whole_file. cbn [lookup]. rewrite get_first. apply lookup_enc; assumption. }
  (* the single replace-and-merge step on the parent group *)
  pose proof (ao_union (RN CNode "" 0%Z 0 [] [data]) (node_tags pk) (shallow_links pk) (rkids pk) Hcompat) as Hstep.
  rewrite <- (enc_eq pk) in Hstep. cbn [append_branch rkids fold_left bind] in Hstep.
  assert (km_in : rget (rkids pk) x = Some km).
  { clear -Hwp Hwm. revert m Hwp Hwm. induction q as [|y q' IH]; intros m Hwp Hwm.
    - injection Hwp as <-. cbn [app rwalk] in Hwm. destruct (rget (rkids m) x); [injection Hwm as <-; reflexivity|discriminate].
    - cbn [app rwalk] in *. destruct (rget (rkids m) y) as [kid|]; [|discriminate]. apply (IH kid Hwp Hwm). }
  assert (mem (rname data) (map fst (filter (fun kv => is_group (snd kv) && has_gtype (snd kv)) (olinks (enc pk)))) = true) as Hmem.
  { rewrite Hdn. apply mem_In. apply in_map_iff. exists (x, enc km). split; [reflexivity|]. apply filter_In. split; [|apply enc_has_gtype].
    rewrite enc_links'. apply in_or_app. right. apply get_In. apply get_enc_kids_some. exact km_in. }
  rewrite Hmem in Hstep.
  destruct (update_at_spec (rname m :: q) (whole_file c0 m) (enc pk) (fun g0 => do g1 <- overwrite_in_parent data g0; in_child (rname data) (append_branch true data) g1) _ Hl Hstep) as (f' & Hu & Hl' & Hfr & _).
  exists f'. split; [|split; [exact Hl'|exact Hfr]].
  unfold append_existing. rewrite Hwr. cbn [emdpath tree]. rewrite Hao.
  rewrite (rootgroups_whole c0 m Hc). rewrite Hname. cbn [mem]. rewrite String.eqb_refl. rewrite Hmds.
  assert (in_child (rname m) (append_root_metadata true []) (whole_file c0 m) = Ok (whole_file c0 m)) as ->.
  { unfold in_child, whole_file. cbn [update_at]. rewrite get_first. cbn [update_at append_root_metadata bind set]. rewrite String.eqb_refl. reflexivity. }
  cbn [bind]. assert ((match q ++ [x] with [] => true | _ :: _ => false end) = false) as -> by (destruct q; reflexivity).
  assert (get (olinks (whole_file c0 m)) (rname m) = Some (enc m)) as -> by (unfold whole_file; cbn [olinks]; apply get_first).
  rewrite (validate_names_enc m Hok (q ++ [x]) km [] Hwm). cbn [app].
  unfold ow_and_branch, overwrite_at. rewrite Hdn.
  destruct (init_last q x) as (Hinit & Hlast).
  assert (last_name (rname m :: q ++ [x]) = x) as ->.
  { unfold last_name. change (rname m :: q ++ [x]) with ((rname m :: q) ++ [x]). apply last_last. }
  rewrite String.eqb_refl, path_eqb_refl. cbn [andb]. assert (exists y q0, q ++ [x] = y :: q0) as (y & q0 & Eq) by (destruct q; cbn; eauto). rewrite Eq at 1. rewrite Hinit.
  (* first the replace in the parent, then the merge below the node: one transformation of the parent group *)
  destruct (update_at_first_ok (rname m :: q) (whole_file c0 m) (overwrite_in_parent data) (in_child (rname data) (append_branch true data)) f' Hu) as (f1 & E1).
  rewrite E1. cbn [bind]. change (rname m :: q ++ [x]) with ((rname m :: q) ++ [x]).
  rewrite (update_at_compose (rname m :: q) (whole_file c0 m) (overwrite_in_parent data) f1 x (append_branch true data) E1).
  rewrite <- Hdn. exact Hu.
Qed.

(* ---------- an inner node together with an emdpath naming its own path or its parent's: the same merge at the node's path *)
Lemma emd_target_enc c0 m p k : ok_tree m -> rwalk m p = Some k ->
  Forall (fun s => s <> "" /\ no_slash s = true) p ->
  emd_target (whole_file c0 m) (rname m) (join_slash p) = Ok (rname m :: p).
Proof.
  intros Hok Hw Hnames.
  assert (Forall (fun s => no_slash s = true) p) as Hns by (eapply Forall_impl; [|exact Hnames]; cbn; intros a Ha; apply Ha).
  assert (Forall (fun s => s <> "") p) as Hnn by (eapply Forall_impl; [|exact Hnames]; cbn; intros a Ha; apply Ha).
  unfold emd_target, whole_file. cbn [olinks]. rewrite get_first. unfold validate_treepath.
  destruct p as [|x q].
  - cbn [join_slash]. change (split_slash "") with [""]. cbn [remove_first_empty String.eqb]. cbn [validate_names app]. reflexivity.
  - rewrite (split_join (x :: q)) by (try discriminate; exact Hns). rewrite (remove_first_empty_none _ Hnn).
    rewrite (validate_names_enc m Hok (x :: q) k [] Hw). reflexivity.
Qed.

Theorem inner_node_append_with_its_own_or_parent_emdpath c0 m root tp km data md tr ep_path :
  In md appendmode -> tr <> Some false ->
  rcls m = CRoot -> rname root = rname m -> rmds root = [] -> ok_tree m ->
  tp <> [] -> rwalk m tp = Some km -> rwalk root tp = Some data -> compat km data ->
  Forall (fun s => s <> "" /\ no_slash s = true) (rname m :: tp) ->
  (ep_path = tp \/ ep_path = removelast tp) ->
  exists f', append_existing root tp (WA md tr (Some (join_slash (rname m :: ep_path)))) md (whole_file c0 m) = Ok f' /\
             lookup f' (rname m :: tp) = Some (enc (merge km data)) /\
             (forall q, is_pref q (rname m :: tp) = false -> is_pref (rname m :: tp) q = false -> lookup f' q = lookup (whole_file c0 m) q).
Proof.
  intros Hmd Htr Hc Hname Hmds Hok Htp Hwm Hwr Hcompat Hnames Hep.
  assert (mem md appendovermode = false) as Hao by (destruct Hmd as [<-|[<-|[<-|[]]]]; reflexivity).
  pose proof (ok_tree_walk m Hok tp km Hwm) as Hokm.
  assert (lookup (whole_file c0 m) (rname m :: tp) = Some (enc km)) as Hl.
  { unfold whole_file. cbn [lookup]. rewrite get_first. apply lookup_enc; assumption. }
  destruct (update_at_spec (rname m :: tp) (whole_file c0 m) (enc km) (append_branch false data) (enc (merge km data)) Hl (append_is_union km data Hokm Hcompat))
    as (f' & Hu & Hl' & Hfr & _).
  exists f'. split; [|split; [exact Hl'|exact Hfr]].
  inversion Hnames as [|? ? (Hrne & Hrns) Hnp]; subst.
  (* the emdpath target exists in the file *)
  assert (exists kt, rwalk m ep_path = Some kt /\ Forall (fun s => s <> "" /\ no_slash s = true) ep_path) as (kt & Hwt & Hnt).
  { destruct Hep as [->| ->]; [exists km; split; assumption|].
    assert (exists q x, tp = q ++ [x]) as (q & x & ->) by (destruct (exists_last Htp) as (q & x & E); eauto).
    rewrite removelast_last. apply Forall_app in Hnp. destruct Hnp as (Hq & _).
    assert (exists pk, rwalk m q = Some pk) as (pk & Hpk).
    { clear -Hwm. revert m Hwm. induction q as [|y q' IH]; intros m Hwm; [exists m; reflexivity|]. cbn [app rwalk] in *. destruct (rget (rkids m) y); [apply IH; exact Hwm|discriminate]. }
    exists pk. split; assumption. }
  assert (Forall (fun s => no_slash s = true) (rname m :: ep_path)) as Hns.
  { constructor; [exact Hrns|]. eapply Forall_impl; [|exact Hnt]. cbn. intros a Ha. apply Ha. }
  unfold append_existing. rewrite Hwr. cbn [emdpath tree].
  rewrite (rootgroups_whole c0 m Hc). rewrite Hname. cbn [mem]. rewrite String.eqb_refl.
  assert (join_slash (rname m :: ep_path) <> "") as Hjne.
  { destruct (rname m) as [|c1 r1] eqn:E; [congruence|]. destruct ep_path; cbn [join_slash String.append]; discriminate. }
  assert ((match join_slash (rname m :: ep_path) with "" => true | String _ _ => false end) = false) as -> by (destruct (join_slash (rname m :: ep_path)); [congruence|reflexivity]).
  rewrite (parse_emdpath_join (rname m) ep_path Hrne Hns). rewrite Hao.
  rewrite (emd_target_enc c0 m ep_path kt Hok Hwt Hnt). cbn [bind]. rewrite Hmds.
  assert (in_child (rname m) (append_root_metadata false []) (whole_file c0 m) = Ok (whole_file c0 m)) as ->.
  { unfold in_child, whole_file. cbn [update_at]. rewrite get_first. cbn [update_at append_root_metadata bind set]. rewrite String.eqb_refl. reflexivity. }
  cbn [bind tl].
  assert ((match tp with [] => true | _ :: _ => false end) = false) as -> by (destruct tp; [congruence|reflexivity]).
  assert (get (olinks (whole_file c0 m)) (rname m) = Some (enc m)) as -> by (unfold whole_file; cbn [olinks]; apply get_first).
  rewrite (validate_names_enc m Hok tp km [] Hwm). cbn [app].
  destruct Hep as [->| ->].
  - (* the emdpath names the node itself *)
    rewrite path_eqb_refl. unfold ow_and_branch.
    destruct tr as [[|]|]; [cbn [bind]; exact Hu|congruence|cbn [bind]; exact Hu].
  - (* the emdpath names the parent: it holds a node of that name *)
    assert (exists q x, tp = q ++ [x]) as (q & x & Etp) by (destruct (exists_last Htp) as (q & x & E); eauto).
    rewrite Etp. rewrite removelast_last.
    assert (path_eqb (q ++ [x]) q = false) as ->.
    { clear. induction q as [|y q' IH]; [reflexivity|]. cbn. rewrite String.eqb_refl. exact IH. }
    assert (lookup (whole_file c0 m) (rname m :: q) = Some (enc kt)) as Hlt.
    { unfold whole_file. cbn [lookup]. rewrite get_first. apply lookup_enc; [exact Hok|]. rewrite Etp, removelast_last in Hwt. exact Hwt. }
    rewrite Hlt.
    assert (has (olinks (enc kt)) (last_name (rname m :: q ++ [x])) = true) as ->.
    { assert (last_name (rname m :: q ++ [x]) = x) as -> by (unfold last_name; change (rname m :: q ++ [x]) with ((rname m :: q) ++ [x]); apply last_last).
      rewrite Etp, removelast_last in Hwt. rewrite Etp in Hwm.
      assert (rget (rkids kt) x = Some km) as Hkx.
      { clear -Hwt Hwm. revert m Hwt Hwm. induction q as [|y q' IH]; intros m Hwt Hwm.
        - injection Hwt as <-. cbn [app rwalk] in Hwm. destruct (rget (rkids m) x); [injection Hwm as <-; reflexivity|discriminate].
        - cbn [app rwalk] in *. destruct (rget (rkids m) y) as [kid|]; [|discriminate]. apply (IH kid Hwt Hwm). }
      unfold has. rewrite enc_links'. assert (get (shallow_links kt ++ enc_kids (rkids kt)) x <> None) as Hne.
      { intros Hn. apply get_none_notin in Hn. apply Hn. rewrite keys_app, keys_enc_kids. apply in_or_app. right. apply rget_in in Hkx. destruct Hkx as (Hin & <-). apply in_map. exact Hin. }
      destruct (get (shallow_links kt ++ enc_kids (rkids kt)) x); [reflexivity|congruence]. }
    rewrite <- Etp. unfold ow_and_branch.
    destruct tr as [[|]|]; [cbn [bind]; exact Hu|congruence|cbn [bind]; exact Hu].
Qed.

(* for every mode and every tree flag: an emdpath naming the inner node's own place, or its parent, changes nothing *)
Theorem inner_node_emdpath_to_itself_or_parent_is_redundant c0 m root tp km data md tr ep_path :
  rcls m = CRoot -> rname root = rname m -> rmds root = [] -> ok_tree m ->
  tp <> [] -> rwalk m tp = Some km -> rwalk root tp = Some data ->
  Forall (fun s => s <> "" /\ no_slash s = true) (rname m :: tp) ->
  (ep_path = tp \/ ep_path = removelast tp) ->
  append_existing root tp (WA md tr (Some (join_slash (rname m :: ep_path)))) md (whole_file c0 m)
  = append_existing root tp (WA md tr None) md (whole_file c0 m).
Proof.
  intros Hc Hname Hmds Hok Htp Hwm Hwr Hnames Hep.
  inversion Hnames as [|? ? (Hrne & Hrns) Hnp]; subst.
  assert (exists kt, rwalk m ep_path = Some kt /\ Forall (fun s => s <> "" /\ no_slash s = true) ep_path) as (kt & Hwt & Hnt).
  { destruct Hep as [->| ->]; [exists km; split; assumption|].
    assert (exists q x, tp = q ++ [x]) as (q & x & ->) by (destruct (exists_last Htp) as (q & x & E); eauto).
    rewrite removelast_last. apply Forall_app in Hnp. destruct Hnp as (Hq & _).
    assert (exists pk, rwalk m q = Some pk) as (pk & Hpk).
    { clear -Hwm. revert m Hwm. induction q as [|y q' IH]; intros m Hwm; [exists m; reflexivity|]. cbn [app rwalk] in *. destruct (rget (rkids m) y); [apply IH; exact Hwm|discriminate]. }
    exists pk. split; assumption. }
  assert (Forall (fun s => no_slash s = true) (rname m :: ep_path)) as Hns.
  { constructor; [exact Hrns|]. eapply Forall_impl; [|exact Hnt]. cbn. intros a Ha. apply Ha. }
  unfold append_existing. rewrite Hwr. cbn [emdpath tree].
  rewrite (rootgroups_whole c0 m Hc). rewrite Hname. cbn [mem]. rewrite String.eqb_refl.
  assert (join_slash (rname m :: ep_path) <> "") as Hjne.
  { destruct (rname m) as [|c1 r1] eqn:E; [congruence|]. destruct ep_path; cbn [join_slash String.append]; discriminate. }
  assert ((match join_slash (rname m :: ep_path) with "" => true | String _ _ => false end) = false) as -> by (destruct (join_slash (rname m :: ep_path)); [congruence|reflexivity]).
  rewrite (parse_emdpath_join (rname m) ep_path Hrne Hns).
  rewrite (emd_target_enc c0 m ep_path kt Hok Hwt Hnt). cbn [bind]. rewrite Hmds.
  assert (in_child (rname m) (append_root_metadata (mem md appendovermode) []) (whole_file c0 m) = Ok (whole_file c0 m)) as ->.
  { unfold in_child, whole_file. cbn [update_at]. rewrite get_first. destruct (mem md appendovermode); cbn [update_at append_root_metadata bind set]; rewrite String.eqb_refl; reflexivity. }
  cbn [bind tl].
  assert ((match tp with [] => true | _ :: _ => false end) = false) as -> by (destruct tp; [congruence|reflexivity]).
  assert (get (olinks (whole_file c0 m)) (rname m) = Some (enc m)) as -> by (unfold whole_file; cbn [olinks]; apply get_first).
  rewrite (validate_names_enc m Hok tp km [] Hwm). cbn [app].
  assert (forall f h, ow_and_branch f h data tp (mem md appendovermode) tr =
            match tr with
            | Some true => ow_and_branch f h data tp (mem md appendovermode) (Some true)
            | Some false => if mem md appendovermode then overwrite_at f h data tp else Ok f
            | None => update_at f h (append_branch (mem md appendovermode) data)
            end) as Hshape.
  { intros f h. unfold ow_and_branch. destruct tr as [[|]|]; [reflexivity| |reflexivity].
    destruct (mem md appendovermode); [|reflexivity]. destruct (overwrite_at f h data tp); reflexivity. }
  destruct Hep as [->| ->].
  - rewrite path_eqb_refl. apply Hshape.
  - assert (exists q x, tp = q ++ [x]) as (q & x & Etp) by (destruct (exists_last Htp) as (q & x & E); eauto).
    rewrite Etp. rewrite removelast_last.
    assert (path_eqb (q ++ [x]) q = false) as ->.
    { clear. induction q as [|y q' IH]; [reflexivity|]. cbn. rewrite String.eqb_refl. exact IH. }
    assert (lookup (whole_file c0 m) (rname m :: q) = Some (enc kt)) as Hlt.
    { unfold whole_file. cbn [lookup]. rewrite get_first. apply lookup_enc; [exact Hok|]. rewrite Etp, removelast_last in Hwt. exact Hwt. }
    rewrite Hlt.
    assert (has (olinks (enc kt)) (last_name (rname m :: q ++ [x])) = true) as ->.
    { assert (last_name (rname m :: q ++ [x]) = x) as -> by (unfold last_name; change (rname m :: q ++ [x]) with ((rname m :: q) ++ [x]); apply last_last).
      rewrite Etp, removelast_last in Hwt. rewrite Etp in Hwm.
      assert (rget (rkids kt) x = Some km) as Hkx.
      { clear -Hwt Hwm. revert m Hwt Hwm. induction q as [|y q' IH]; intros m Hwt Hwm.
        - injection Hwt as <-. cbn [app rwalk] in Hwm. destruct (rget (rkids m) x); [injection Hwm as <-; reflexivity|discriminate].
        - cbn [app rwalk] in *. destruct (rget (rkids m) y) as [kid|]; [|discriminate]. apply (IH kid Hwt Hwm). }
      unfold has. rewrite enc_links'. assert (get (shallow_links kt ++ enc_kids (rkids kt)) x <> None) as Hne.
      { intros Hn. apply get_none_notin in Hn. apply Hn. rewrite keys_app, keys_enc_kids. apply in_or_app. right. apply rget_in in Hkx. destruct Hkx as (Hin & <-). apply in_map. exact Hin. }
      destruct (get (shallow_links kt ++ enc_kids (rkids kt)) x); [reflexivity|congruence]. }
    rewrite <- Etp. apply Hshape.
Qed.

(* ---------- an inner node with an emdpath naming a file node BELOW it: the runtime node at that place is merged there *)
Lemma is_prefix_app (a b : path) : is_prefix a (a ++ b) = Some b.
Proof. induction a as [|x q IH]; [reflexivity|]. cbn [app is_prefix]. rewrite String.eqb_refl. exact IH. Qed.
Lemma path_eqb_app_false (a b : path) : b <> [] -> path_eqb a (a ++ b) = false.
Proof. intros Hb. induction a as [|x q IH]; cbn [app path_eqb]; [destruct b; [congruence|reflexivity]|]. rewrite String.eqb_refl. exact IH. Qed.

Theorem inner_node_with_an_emdpath_below_it c0 m root tp rel km kt data d2 md tr :
  In md appendmode -> tr <> Some false ->
  rcls m = CRoot -> rname root = rname m -> rmds root = [] -> ok_tree m ->
  tp <> [] -> rel <> [] -> rwalk m tp = Some km -> rwalk m (tp ++ rel) = Some kt ->
  rwalk root tp = Some data -> rwalk data rel = Some d2 -> compat kt d2 ->
  get (olinks (enc kt)) (last tp "") = None ->
  Forall (fun s => s <> "" /\ no_slash s = true) (rname m :: tp ++ rel) ->
  exists f', append_existing root tp (WA md tr (Some (join_slash (rname m :: tp ++ rel)))) md (whole_file c0 m) = Ok f' /\
             lookup f' (rname m :: tp ++ rel) = Some (enc (merge kt d2)) /\
             (forall q, is_pref q (rname m :: tp ++ rel) = false -> is_pref (rname m :: tp ++ rel) q = false -> lookup f' q = lookup (whole_file c0 m) q).
Proof.
  intros Hmd Htr Hc Hname Hmds Hok Htp Hrel Hwm Hwt Hwr Hwd Hcompat Hnolink Hnames.
  assert (mem md appendovermode = false) as Hao by (destruct Hmd as [<-|[<-|[<-|[]]]]; reflexivity).
  pose proof (ok_tree_walk m Hok (tp ++ rel) kt Hwt) as Hokt.
  assert (lookup (whole_file c0 m) (rname m :: tp ++ rel) = Some (enc kt)) as Hl.
  { unfold whole_file. cbn [lookup]. rewrite get_first. apply lookup_enc; assumption. }
  destruct (update_at_spec (rname m :: tp ++ rel) (whole_file c0 m) (enc kt) (append_branch false d2) (enc (merge kt d2)) Hl (append_is_union kt d2 Hokt Hcompat))
    as (f' & Hu & Hl' & Hfr & _).
  exists f'. split; [|split; [exact Hl'|exact Hfr]].
  inversion Hnames as [|? ? (Hrne & Hrns) Hnp]; subst.
  assert (Forall (fun s => no_slash s = true) (rname m :: tp ++ rel)) as Hns.
  { constructor; [exact Hrns|]. eapply Forall_impl; [|exact Hnp]. cbn. intros a Ha. apply Ha. }
  unfold append_existing. rewrite Hwr. cbn [emdpath tree].
  rewrite (rootgroups_whole c0 m Hc). rewrite Hname. cbn [mem]. rewrite String.eqb_refl.
  assert (join_slash (rname m :: tp ++ rel) <> "") as Hjne.
  { destruct (rname m) as [|c1 r1] eqn:E; [congruence|]. destruct (tp ++ rel); cbn [join_slash String.append]; discriminate. }
  assert ((match join_slash (rname m :: tp ++ rel) with "" => true | String _ _ => false end) = false) as -> by (destruct (join_slash (rname m :: tp ++ rel)); [congruence|reflexivity]).
  rewrite (parse_emdpath_join (rname m) (tp ++ rel) Hrne Hns). rewrite Hao.
  rewrite (emd_target_enc c0 m (tp ++ rel) kt Hok Hwt Hnp). cbn [bind]. rewrite Hmds.
  assert (in_child (rname m) (append_root_metadata false []) (whole_file c0 m) = Ok (whole_file c0 m)) as ->.
  { unfold in_child, whole_file. cbn [update_at]. rewrite get_first. cbn [update_at append_root_metadata bind set]. rewrite String.eqb_refl. reflexivity. }
  cbn [bind tl].
  assert ((match tp with [] => true | _ :: _ => false end) = false) as -> by (destruct tp; [congruence|reflexivity]).
  assert (get (olinks (whole_file c0 m)) (rname m) = Some (enc m)) as -> by (unfold whole_file; cbn [olinks]; apply get_first).
  rewrite (validate_names_enc m Hok tp km [] Hwm). cbn [app].
  rewrite (path_eqb_app_false tp rel Hrel). rewrite Hl.
  assert (last_name (rname m :: tp) = last tp "") as ->.
  { unfold last_name. destruct tp as [|x q]; [congruence|]. reflexivity. }
  unfold has. rewrite Hnolink. rewrite is_prefix_app. rewrite Hwd.
  unfold ow_and_branch. destruct tr as [[|]|]; [cbn [bind]; exact Hu|congruence|cbn [bind]; exact Hu].
Qed.

(* ---------- every save that moves its data to an emdpath target inside the same tree IS the save of the inner node found
   there, without an emdpath -- for every mode and every tree flag *)
Lemma ow_shape f h data tp ao tr :
  ow_and_branch f h data tp ao tr =
  match tr with
  | Some true => ow_and_branch f h data tp ao (Some true)
  | Some false => if ao then overwrite_at f h data tp else Ok f
  | None => update_at f h (append_branch ao data)
  end.
Proof.
  unfold ow_and_branch. destruct tr as [[|]|]; [reflexivity| |reflexivity].
  destruct ao; [|reflexivity]. destruct (overwrite_at f h data tp); reflexivity.
Qed.

Lemma rwalk_app' r : forall p q d, rwalk r p = Some d -> rwalk r (p ++ q) = rwalk d q.
Proof.
  intros p. revert r. induction p as [|x p' IH]; intros r q d H; [injection H as <-; reflexivity|].
  cbn [app rwalk] in *. destruct (rget (rkids r) x) as [kid|]; [apply IH; exact H|discriminate].
Qed.

Lemma inner_save_shape c0 m root p km d2 md tr :
  rcls m = CRoot -> rname root = rname m -> rmds root = [] -> ok_tree m -> p <> [] ->
  rwalk m p = Some km -> rwalk root p = Some d2 ->
  append_existing root p (WA md tr None) md (whole_file c0 m)
  = ow_and_branch (whole_file c0 m) (rname m :: p) d2 p (mem md appendovermode) tr.
Proof.
  intros Hc Hname Hmds Hok Hp Hwm Hwr. unfold append_existing. rewrite Hwr. cbn [emdpath tree].
  rewrite (rootgroups_whole c0 m Hc). rewrite Hname. cbn [mem]. rewrite String.eqb_refl. rewrite Hmds.
  assert (in_child (rname m) (append_root_metadata (mem md appendovermode) []) (whole_file c0 m) = Ok (whole_file c0 m)) as ->.
  { unfold in_child, whole_file. cbn [update_at]. rewrite get_first. destruct (mem md appendovermode); cbn [update_at append_root_metadata bind set]; rewrite String.eqb_refl; reflexivity. }
  cbn [bind].
  assert ((match p with [] => true | _ :: _ => false end) = false) as -> by (destruct p; [congruence|reflexivity]).
  assert (get (olinks (whole_file c0 m)) (rname m) = Some (enc m)) as -> by (unfold whole_file; cbn [olinks]; apply get_first).
  rewrite (validate_names_enc m Hok p km [] Hwm). cbn [app]. symmetry. apply ow_shape.
Qed.

Theorem whole_tree_at_an_emdpath_is_the_inner_node_save c0 m root p km d2 md tr :
  rcls m = CRoot -> rname root = rname m -> rmds root = [] -> ok_tree m -> p <> [] ->
  rwalk m p = Some km -> rwalk root p = Some d2 ->
  Forall (fun s => s <> "" /\ no_slash s = true) (rname m :: p) ->
  append_existing root [] (WA md tr (Some (join_slash (rname m :: p)))) md (whole_file c0 m)
  = append_existing root p (WA md tr None) md (whole_file c0 m).
Proof.
  intros Hc Hname Hmds Hok Hp Hwm Hwr Hnames.
  rewrite (inner_save_shape c0 m root p km d2 md tr Hc Hname Hmds Hok Hp Hwm Hwr).
  inversion Hnames as [|? ? (Hrne & Hrns) Hnp]; subst.
  assert (Forall (fun s => no_slash s = true) (rname m :: p)) as Hns.
  { constructor; [exact Hrns|]. eapply Forall_impl; [|exact Hnp]. cbn. intros a Ha. apply Ha. }
  unfold append_existing. cbn [rwalk emdpath tree].
  rewrite (rootgroups_whole c0 m Hc). rewrite Hname. cbn [mem]. rewrite String.eqb_refl.
  assert (join_slash (rname m :: p) <> "") as Hjne.
  { destruct (rname m) as [|c1 r1] eqn:E; [congruence|]. destruct p; cbn [join_slash String.append]; discriminate. }
  assert ((match join_slash (rname m :: p) with "" => true | String _ _ => false end) = false) as -> by (destruct (join_slash (rname m :: p)); [congruence|reflexivity]).
  rewrite (parse_emdpath_join (rname m) p Hrne Hns).
  rewrite (emd_target_enc c0 m p km Hok Hwm Hnp). cbn [bind]. rewrite Hmds.
  assert (in_child (rname m) (append_root_metadata (mem md appendovermode) []) (whole_file c0 m) = Ok (whole_file c0 m)) as ->.
  { unfold in_child, whole_file. cbn [update_at]. rewrite get_first. destruct (mem md appendovermode); cbn [update_at append_root_metadata bind set]; rewrite String.eqb_refl; reflexivity. }
  cbn [bind tl]. rewrite Hwr. reflexivity.
Qed.

Theorem inner_node_at_an_emdpath_below_it_is_the_save_of_the_node_there c0 m root tp rel km kt data d2 md tr :
  rcls m = CRoot -> rname root = rname m -> rmds root = [] -> ok_tree m ->
  tp <> [] -> rel <> [] -> rwalk m tp = Some km -> rwalk m (tp ++ rel) = Some kt ->
  rwalk root tp = Some data -> rwalk data rel = Some d2 ->
  get (olinks (enc kt)) (last tp "") = None ->
  Forall (fun s => s <> "" /\ no_slash s = true) (rname m :: tp ++ rel) ->
  append_existing root tp (WA md tr (Some (join_slash (rname m :: tp ++ rel)))) md (whole_file c0 m)
  = append_existing root (tp ++ rel) (WA md tr None) md (whole_file c0 m).
Proof.
  intros Hc Hname Hmds Hok Htp Hrel Hwm Hwt Hwr Hwd Hnolink Hnames.
  assert (rwalk root (tp ++ rel) = Some d2) as Hwr2 by (rewrite (rwalk_app' root tp rel data Hwr); exact Hwd).
  assert (tp ++ rel <> []) as Hne by (destruct tp; [congruence|discriminate]).
  rewrite (inner_save_shape c0 m root (tp ++ rel) kt d2 md tr Hc Hname Hmds Hok Hne Hwt Hwr2).
  inversion Hnames as [|? ? (Hrne & Hrns) Hnp]; subst.
  assert (Forall (fun s => no_slash s = true) (rname m :: tp ++ rel)) as Hns.
  { constructor; [exact Hrns|]. eapply Forall_impl; [|exact Hnp]. cbn. intros a Ha. apply Ha. }
  assert (lookup (whole_file c0 m) (rname m :: tp ++ rel) = Some (enc kt)) as Hl.
  { unfold whole_file. cbn [lookup]. rewrite get_first. apply lookup_enc; assumption. }
  unfold append_existing. rewrite Hwr. cbn [emdpath tree].
  rewrite (rootgroups_whole c0 m Hc). rewrite Hname. cbn [mem]. rewrite String.eqb_refl.
  assert (join_slash (rname m :: tp ++ rel) <> "") as Hjne.
  { destruct (rname m) as [|c1 r1] eqn:E; [congruence|]. destruct (tp ++ rel); cbn [join_slash String.append]; discriminate. }
  assert ((match join_slash (rname m :: tp ++ rel) with "" => true | String _ _ => false end) = false) as -> by (destruct (join_slash (rname m :: tp ++ rel)); [congruence|reflexivity]).
  rewrite (parse_emdpath_join (rname m) (tp ++ rel) Hrne Hns).
  rewrite (emd_target_enc c0 m (tp ++ rel) kt Hok Hwt Hnp). cbn [bind]. rewrite Hmds.
  assert (in_child (rname m) (append_root_metadata (mem md appendovermode) []) (whole_file c0 m) = Ok (whole_file c0 m)) as ->.
  { unfold in_child, whole_file. cbn [update_at]. rewrite get_first. destruct (mem md appendovermode); cbn [update_at append_root_metadata bind set]; rewrite String.eqb_refl; reflexivity. }
  cbn [bind tl].
  assert ((match tp with [] => true | _ :: _ => false end) = false) as -> by (destruct tp; [congruence|reflexivity]).
  assert (get (olinks (whole_file c0 m)) (rname m) = Some (enc m)) as -> by (unfold whole_file; cbn [olinks]; apply get_first).
  rewrite (validate_names_enc m Hok tp km [] Hwm). cbn [app].
  rewrite (path_eqb_app_false tp rel Hrel). rewrite Hl.
  assert (last_name (rname m :: tp) = last tp "") as ->.
  { unfold last_name. destruct tp as [|x q]; [congruence|]. reflexivity. }
  unfold has. rewrite Hnolink. rewrite is_prefix_app. rewrite Hwd. reflexivity.
Qed.
