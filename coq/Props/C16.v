(* C16 -- anything read can be saved again, and a second generation equals the first.  Statements only.
   Proved for the two codecs whose reader produces forms the writer has to accept again -- metadata values (numpy
   scalars inside sequences) and Array calibrations (re-expanded dim vectors) -- and for trees (what read returned -- the whole
   tree or any of the three selections of an inner node -- is writable and readable again and reads back as the very
   same tree: canon is idempotent).  PARTIAL: PointList /
   PointListArray contents and legacy imports are decided on the real code by the oracle (three generations). *)
From Coq Require Import ZArith List PrimFloat.
From Emd Require Import Base.Prelude Model.Md Model.Arr Proofs.P03 Proofs.P14 Proofs.P02 Proofs.P15 Proofs.P16.
From Emd Require Model.H5 Model.Emd Model.Reader Proofs.PTree Proofs.PRead Proofs.PGen Proofs.PSel.

Theorem C16_metadata_second_generation_equals_first :
  forall v, doc v = true ->
    exists it v' it' v'', save_item v = Ok it /\ read_item it = Ok v' /\ mequiv v v' = true /\
                         save_item v' = Ok it' /\ read_item it' = Ok v'' /\ mequiv v' v'' = true.
Proof. exact second_generation_equals_first. Qed.
Print Assumptions C16_metadata_second_generation_equals_first.

(* what a generation returns is again in the (generalised) documented domain: any number of generations *)
Theorem C16_metadata_domain_closed_under_a_generation :
  forall v, doc v = true -> exists it v', save_item v = Ok it /\ read_item it = Ok v' /\ docg v' = true.
Proof. exact generation_closure. Qed.
Print Assumptions C16_metadata_domain_closed_under_a_generation.
Theorem C16_metadata_any_further_generation :
  forall v, docg v = true -> exists it v', save_item v = Ok it /\ read_item it = Ok v' /\ mequiv v v' = true.
Proof. exact docg_generation. Qed.
Print Assumptions C16_metadata_any_further_generation.

Theorem C16_array_calibrations_second_generation :
  forall a, arr_inv a ->
    (forall d, a_depth a = Some d -> length (a_labels a) = d) -> (a_depth a = None -> a_labels a = []) ->
    exists a' a'', arr_load (arr_store a) = Ok a' /\ arr_load (arr_store a') = Ok a'' /\
      a_shape a'' = a_shape a' /\ a_depth a'' = a_depth a' /\ a_units a'' = a_units a' /\ a_names a'' = a_names a' /\
      a_labels a'' = a_labels a' /\ Forall2 dimv_equiv (a_dims a') (a_dims a'').
Proof. exact array_second_generation. Qed.
Print Assumptions C16_array_calibrations_second_generation.

(* non-vacuity: a tuple of bools comes back as numpy bools, which the writer accepts again *)
Example C16_bool_tuple_two_generations :
  doc (MTuple [MSc (SB true); MSc (SB false)]) = true /\
  docg (MTuple [MNp (SB true); MNp (SB false)]) = true /\
  exists it, save_item (MTuple [MNp (SB true); MNp (SB false)]) = Ok it.
Proof. split; [reflexivity|]. split; [reflexivity|]. eexists. reflexivity. Qed.

(* ---------- trees (model of C01): save, read, save what was read under any session configuration, read again *)
Module Trees.
Import Model.H5 Model.Emd Model.Reader Proofs.PTree Proofs.PRead Proofs.PGen Proofs.PSel.
Theorem C16_tree_second_generation_equals_first :
  forall c c' root,
    rcls root = CRoot -> ok_tree root -> rd_tree root -> rname root <> "" -> no_slash (rname root) = true ->
    exists f1 f2,
      fresh_file c root [] (Some true) = Ok f1 /\ read (H5 f1) None None = Ok (RTree (canon root) RetRoot) /\
      fresh_file c' (canon root) [] (Some true) = Ok f2 /\ read (H5 f2) None None = Ok (RTree (canon root) RetRoot) /\
      read (H5 f2) None (Some true) = Ok (RTree (canon root) (ret_of (canon root))).
Proof. exact tree_second_generation. Qed.
Print Assumptions C16_tree_second_generation_equals_first.

(* what read returns is a fixed point of a generation, hence any number of generations *)
Theorem C16_tree_read_result_is_a_fixed_point :
  forall t, canon (canon t) = canon t /\ (ok_tree t -> ok_tree (canon t)) /\ (rd_tree t -> rd_tree (canon t)).
Proof. intros t. split; [apply canon_idem|]. split; [apply ok_tree_canon|apply rd_tree_canon]. Qed.
Print Assumptions C16_tree_read_result_is_a_fixed_point.

(* every read selection: read(path, emdpath = 'root/p', tree = tr) of a node k of a saved tree returns canon (sel_tree root k tr)
   -- sel_tree = the root holding the node alone / the node with its branch / the branch below the node, i.e. the tree a
   partial save (C07) writes -- and saving that result and reading it again returns it unchanged *)
Theorem C16_partial_read_second_generation_equals_first :
  forall c c' root p k tr,
    rcls root = CRoot -> ok_tree root -> rd_tree root -> p <> [] -> rwalk root p = Some k ->
    Forall (fun s => s <> "" /\ no_slash s = true) (rname root :: p) ->
    let t1 := canon (sel_tree root k tr) in
    exists ret f2,
      read (H5 (whole_file c root)) (Some (join_slash (rname root :: p))) tr = Ok (RTree t1 ret) /\
      fresh_file c' t1 [] (Some true) = Ok f2 /\
      read (H5 f2) None (Some true) = Ok (RTree t1 (ret_of t1)) /\ read (H5 f2) None None = Ok (RTree t1 RetRoot).
Proof. exact partial_read_second_generation. Qed.
Print Assumptions C16_partial_read_second_generation_equals_first.
End Trees.
