(* C13 -- cut and graft treat root metadata exactly as the chosen option documents.  Statements only. *)
From Emd Require Import Base.Prelude Model.Forest Proofs.PForestMd.

(* graft (also force_add, which is graft with MFalse): the receiving root's metadata become
   md_merge of the donor root's entries into its own; every other root (the donor's included) is untouched. *)
Theorem C13_graft_merges_into_receiver_only :
  forall s recv d o s', graft s recv d o = Some s' ->
  exists dn rn rd rr Md Mr,
    ffind (trees s) d = Some dn /\ ffind (trees s) recv = Some rn /\ tsroot dn = Some rd /\ tsroot rn = Some rr /\
    rmds (trees s) rd = Some Md /\ rmds (trees s) rr = Some Mr /\
    rmds (trees s') rr = Some (fst (md_merge o Md Mr (next_md s))) /\
    next_md s' = snd (md_merge o Md Mr (next_md s)) /\
    (forall x, x <> rr -> rmds (trees s') x = rmds (trees s) x).
Proof. exact graft_root_mds. Qed.
Print Assumptions C13_graft_merges_into_receiver_only.

Theorem C13_cut_is_graft_onto_fresh_empty_root :
  forall s d o s', ffind (trees s) (next_id s) = None -> cut s d o = Some s' ->
  exists dn rd Md,
    ffind (trees s) d = Some dn /\ tsroot dn = Some rd /\ rmds (trees s) rd = Some Md /\
    rmds (trees s') (next_id s) = Some (fst (md_merge o Md [] (next_md s))) /\
    (forall x, x <> next_id s -> rmds (trees s') x = rmds (trees s) x).
Proof. exact cut_root_mds. Qed.
Print Assumptions C13_cut_is_graft_onto_fresh_empty_root.

(* what the merge does, per option.  Md = donor root's entries (a dict: distinct keys, each Metadata
   named like its key), Mr = receiver's entries, f = next fresh object identity. *)
Theorem C13_no_metadata_option : forall Md Mr f, md_merge MFalse Md Mr f = (Mr, f).
Proof. exact merge_false. Qed.
Print Assumptions C13_no_metadata_option.

Theorem C13_receiver_only_entries_always_survive :
  forall o Md Mr f k, keys_sync Md -> ~ In k (keys Md) -> get (fst (md_merge o Md Mr f)) k = get Mr k.
Proof. intros. apply merge_other; assumption. Qed.
Print Assumptions C13_receiver_only_entries_always_survive.

Theorem C13_default_and_copy_keep_every_receiver_entry :
  forall o Md, o = MTrue \/ o = MCopy -> forall Mr f k v, keys_sync Md ->
    get Mr k = Some v -> get (fst (md_merge o Md Mr f)) k = Some v.
Proof. exact merge_keeps_receiver. Qed.
Print Assumptions C13_default_and_copy_keep_every_receiver_entry.

(* donor entries: shared object for default/overwrite, fresh object with equal content and the same
   key/name for copy/copyover; conflicts kept (default, copy) or replaced (overwrite, copyover) *)
Theorem C13_donor_entries_per_option :
  forall o Md Mr f k v, keys_sync Md -> NoDup (keys Md) -> get Md k = Some v ->
  let '(M, f') := md_merge o Md Mr f in
  match o with
  | MFalse => get M k = get Mr k
  | MTrue => get M k = match get Mr k with Some w => Some w | None => Some v end
  | MOverwrite => get M k = Some v
  | MCopy => match get Mr k with Some w => get M k = Some w
             | None => exists i, f <= i < f' /\ get M k = Some (MD i k (md_tok v)) end
  | MCopyover => exists i, f <= i < f' /\ get M k = Some (MD i k (md_tok v))
  end.
Proof. exact merge_donor_entry. Qed.
Print Assumptions C13_donor_entries_per_option.

(* non-vacuity: overlapping sets, all five options *)
Definition exMd := [("m1", MD 10 "m1" 101); ("m2", MD 11 "m2" 102)].
Definition exMr := [("m2", MD 20 "m2" 202); ("m3", MD 21 "m3" 203)].
Example C13_hypotheses_satisfiable : keys_sync exMd /\ NoDup (keys exMd) /\
  fst (md_merge MCopyover exMd exMr 30) = [("m2", MD 31 "m2" 102); ("m3", MD 21 "m3" 203); ("m1", MD 30 "m1" 101)] /\
  fst (md_merge MCopy exMd exMr 30) = [("m2", MD 20 "m2" 202); ("m3", MD 21 "m3" 203); ("m1", MD 30 "m1" 101)] /\
  fst (md_merge MTrue exMd exMr 30) = [("m2", MD 20 "m2" 202); ("m3", MD 21 "m3" 203); ("m1", MD 10 "m1" 101)] /\
  fst (md_merge MOverwrite exMd exMr 30) = [("m2", MD 11 "m2" 102); ("m3", MD 21 "m3" 203); ("m1", MD 10 "m1" 101)].
Proof.
  split; [|split; [|repeat split; reflexivity]].
  - intros k v [H|[H|[]]]; injection H as <- <-; reflexivity.
  - cbn. repeat (constructor; [cbn; intuition discriminate|]). constructor.
Qed.
