(* C12 -- tree operations keep every node consistent with the tree it is in.  Statements only.
   The model (Model/Forest.v) follows the stored _root/_treepath pointers the way classes/node.py does. *)
From Coq Require Import Permutation.
From Emd Require Import Base.Prelude Model.Forest Proofs.PForest Proofs.PForestRoot.

(* WF s: identities unique; every top-level object is a Root whose whole tree carries that root and each
   node's real path as stored path, or an unrooted childless node; ids below next_id.
   names_ok: non-root nodes are distinctly named (the property's quantifier).
   in_domain': grafts onto a node of the grafted branch itself are excluded (the property's quantifier); nothing else:
   the donor of a graft / cut / force_add may be an inner node or a Root (whose children are then moved one by one). *)

Theorem C12_step_preserves_wellformedness :
  forall s o, WF s -> names_ok s -> in_domain' s o ->
    let s' := fst (step s o) in
    WF s' /\ names_ok s' /\
    exists E, Permutation (flabs (trees s')) (flabs (trees s) ++ E) /\
              Forall (fun l => snd (fst l) = true /\ next_id s <= lid l < next_id s') E /\ next_id s <= next_id s'.
Proof. exact step_wf_full. Qed.
Print Assumptions C12_step_preserves_wellformedness.

(* any finite sequence of operations *)
Theorem C12_any_sequence :
  forall ops s, WF s -> names_ok s -> dom_run' s ops -> WF (fst (run s ops)) /\ names_ok (fst (run s ops)).
Proof. exact run_wf_full. Qed.
Print Assumptions C12_any_sequence.

(* in a well-formed forest, looking up a node's own stored path from its root returns that node,
   and the node reports that root *)
Theorem C12_lookup_own_path :
  forall s R x n, WF s -> names_ok s -> In R (trees s) -> tisroot R = true -> find R x = Some n -> n <> R ->
    exists path, tspath n = Some path /\ walk R path = Some n /\ tsroot n = Some (tid R).
Proof. exact lookup_own_path. Qed.
Print Assumptions C12_lookup_own_path.

(* operations that the API forbids fail, and a failing call changes nothing *)
Theorem C12_add_rooted_node_fails :
  forall F p c cn r, ftop F c = Some cn -> tsroot cn = Some r -> add_to_tree F p c = None.
Proof. exact add_rooted_fails. Qed.
Print Assumptions C12_add_rooted_node_fails.
Theorem C12_add_to_unrooted_node_fails :
  forall F p c pn, ffind F p = Some pn -> tsroot pn = None -> add_to_tree F p c = None.
Proof. exact add_to_unrooted_fails. Qed.
Print Assumptions C12_add_to_unrooted_node_fails.
Theorem C12_failed_call_changes_nothing :
  forall s o, snd (step s o) = false -> fst (step s o) = s.
Proof. exact step_fail_unchanged. Qed.
Print Assumptions C12_failed_call_changes_nothing.

(* non-vacuity: a concrete forest meets the hypotheses, and a graft between two trees is in the domain *)
Definition ex_state : st :=
  ST [ TN 0 true "r0" (Some 0) (Some []) [] [ TN 2 false "a" (Some 0) (Some ["a"]) [] [] ];
       TN 1 true "r1" (Some 1) (Some []) []
          [ TN 3 false "b" (Some 1) (Some ["b"]) [] [ TN 4 false "c" (Some 1) (Some ["b"; "c"]) [] [] ] ] ] 5 0.
Example C12_hypotheses_satisfiable : WF ex_state /\ names_ok ex_state /\ in_domain' ex_state (OGraft 2 3 MTrue)
  /\ snd (step ex_state (OGraft 2 3 MTrue)) = true
  /\ in_domain' ex_state (OGraft 2 1 MTrue) /\ snd (step ex_state (OGraft 2 1 MTrue)) = true     (* a Root as the donor *)
  /\ snd (step ex_state (OCut 1 MCopy)) = true.
Proof.
  split; [|split; [|split; [|split; [|split; [|split]]]]].
  - split; [split|].
    + cbn. repeat (constructor; [cbn; intuition discriminate|]). constructor.
    + repeat constructor; cbn; left; repeat split; repeat constructor.
    + cbn. intros i Hi. repeat (destruct Hi as [<-|Hi]; [lia|]). destruct Hi.
  - intros a b Ha Hb. cbn in Ha, Hb.
    repeat (destruct Ha as [<-|Ha]; [repeat (destruct Hb as [<-|Hb]; [cbn; intros; try reflexivity; try discriminate|]); try destruct Hb|]); destruct Ha.
  - cbn. intros dn H. injection H as <-. cbn. intuition discriminate.
  - reflexivity.
  - cbn. intros dn H. injection H as <-. cbn. intuition discriminate.
  - reflexivity.
  - reflexivity.
Qed.
