(* C05 -- every file written is a well-formed EMD 1.0 file.  Statements only.
   PARTIAL: proved are layout facts about what the writer produces (for every tree): valid tags on every node
   group, tagged bundles of tagged typed items, the header passing the package detector, the bundle created by
   the append path being tagged, and (C09/C18 files) that a replace leaves no scratch group.  The complete
   validator (incl. Array data/dim datasets, and every dispatch branch of write.py) runs on real files in the
   harness after every successful save of every scenario. *)
From Emd Require Import Base.Prelude Model.H5 Model.Emd Generated.Tables Proofs.PTree Proofs.P05 Proofs.P20.
From Emd Require Generated.Version.

Theorem C05_every_node_group_is_tagged :
  forall root p k, ok_tree root -> rwalk root p = Some k ->
    exists g, lookup (enc root) p = Some g /\
      attr_str g "emd_group_type" = Some (gtype (rcls k)) /\ mem (gtype (rcls k)) EMD_group_types = true /\
      attr_str g "python_class" = Some (pyclass (rcls k)).
Proof. exact node_group_tagged. Qed.
Print Assumptions C05_every_node_group_is_tagged.

Theorem C05_group_types_come_from_the_vocabulary :
  forall c, mem (gtype c) EMD_group_types = true.
Proof. exact gtype_valid. Qed.
Print Assumptions C05_group_types_come_from_the_vocabulary.

Theorem C05_metadata_in_tagged_bundle_of_tagged_typed_items :
  forall m, attr_is (bundle m) "emd_group_type" "metadatabundle" = true /\
    forallb (fun kv => attr_is (snd kv) "emd_group_type" "metadata" && has (oattrs (snd kv)) "python_class"
                       && forallb (fun it => has (oattrs (snd it)) "type") (olinks (snd kv))) (olinks (bundle m)) = true.
Proof. exact bundle_wellformed. Qed.
Print Assumptions C05_metadata_in_tagged_bundle_of_tagged_typed_items.

Theorem C05_node_metadata_sits_in_the_bundle :
  forall n, rmds n <> [] -> get (olinks (enc n)) "metadatabundle" = Some (bundle (rmds n)).
Proof. exact node_bundle. Qed.
Print Assumptions C05_node_metadata_sits_in_the_bundle.

Theorem C05_written_header_passes_the_detector :
  forall c root, is_emd_file (G (header c) [(rname root, enc root)]) = true <-> rcls root = CRoot.
Proof. exact fresh_file_detected. Qed.
Print Assumptions C05_written_header_passes_the_detector.

Theorem C05_header_carries_program_and_user :
  forall c, get (header c) "authoring_program" = Some (AStr (program c)) /\ get (header c) "authoring_user" = Some (AStr (user c))
         /\ get (header c) "emd_group_type" = Some (AStr "file") /\ has (header c) "UUID" = true.
Proof. intros c. repeat split; reflexivity. Qed.
Print Assumptions C05_header_carries_program_and_user.

Theorem C05_bundle_created_by_append_is_tagged :
  forall ao mds rg rg', mds <> [] -> has (olinks rg) "metadatabundle" = false ->
    append_root_metadata ao mds rg = Ok rg' ->
    exists b, get (olinks rg') "metadatabundle" = Some b /\ attr_is b "emd_group_type" "metadatabundle" = true.
Proof. exact appended_bundle_tagged. Qed.
Print Assumptions C05_bundle_created_by_append_is_tagged.
