(* C05 -- every file written is a well-formed EMD 1.0 file.  Statements only.
   Proved: a validator wf_emd (the Coq twin of the harness's h5py-only validator) accepts
     - every file a fresh save produces (whole tree or any partial selection),
     - every file an append (C09's union) or an append-over (union + replace) of a whole tree leaves,
     - every file an append aimed inside a tree leaves: an inner node; the whole tree at an emdpath; an inner node with an
       emdpath to itself or its parent; a foreign tree or inner node placed under an emdpath; append-over of an inner node (alone, with its branch, or the branch below it) and of the whole tree at an emdpath (closed
       forms of Proofs/PSubst.v),
     - every file of several trees, the file after any history of whole-tree saves (new trees, appends, append-overs in any
       order), and every list save (lists mixing roots, unrooted items and rooted nodes of several
       roots) into a fresh file or appended to a file of other trees;
   plus the individual layout facts (valid tags on every node group, tagged bundles of tagged typed items, the header
   passing the package detector, the bundle created by the append path tagged, no scratch group after a replace: C09/C18).
   PARTIAL: list saves holding rooted items of a root the file already has are validated on real files by the harness
   after every successful save of every scenario, not by a theorem. *)
From Emd Require Import Base.Prelude Model.H5 Model.Emd Model.Reader Generated.Tables Proofs.PTree Proofs.P05 Proofs.P20 Proofs.PRead Proofs.PUnion Proofs.PUnionAO Proofs.PWf Proofs.PMulti Proofs.PAfter Proofs.PMixed Proofs.PTarget Proofs.PSubst Proofs.PScratch.
From Emd Require Import Model.EmdList.
From Emd Require Generated.Version.

Theorem C05_every_node_group_is_tagged :
  forall root p k, ok_tree root -> rwalk root p = Some k ->
    exists g, lookup (enc root) p = Some g /\
      attr_str g "emd_group_type" = Some (gtype (rcls k)) /\ mem (gtype (rcls k)) EMD_group_types = true /\
      attr_str g "python_class" = Some (pyclass (rcls k)).
Proof. exact node_group_tagged. Qed.
Print Assumptions C05_every_node_group_is_tagged.

Theorem C05_group_types_come_from_the_vocabulary :
  forall c, mem (gtype c) EMD_group_types = true.
Proof. exact gtype_valid. Qed.
Print Assumptions C05_group_types_come_from_the_vocabulary.

Theorem C05_metadata_in_tagged_bundle_of_tagged_typed_items :
  forall m, attr_is (bundle m) "emd_group_type" "metadatabundle" = true /\
    forallb (fun kv => attr_is (snd kv) "emd_group_type" "metadata" && has (oattrs (snd kv)) "python_class"
                       && forallb (fun it => has (oattrs (snd it)) "type") (olinks (snd kv))) (olinks (bundle m)) = true.
Proof. exact bundle_wellformed. Qed.
Print Assumptions C05_metadata_in_tagged_bundle_of_tagged_typed_items.

Theorem C05_node_metadata_sits_in_the_bundle :
  forall n, rmds n <> [] -> get (olinks (enc n)) "metadatabundle" = Some (bundle (rmds n)).
Proof. exact node_bundle. Qed.
Print Assumptions C05_node_metadata_sits_in_the_bundle.

Theorem C05_written_header_passes_the_detector :
  forall c root, is_emd_file (G (header c) [(rname root, enc root)]) = true <-> rcls root = CRoot.
Proof. exact fresh_file_detected. Qed.
Print Assumptions C05_written_header_passes_the_detector.

Theorem C05_header_carries_program_and_user :
  forall c, get (header c) "authoring_program" = Some (AStr (program c)) /\ get (header c) "authoring_user" = Some (AStr (user c))
         /\ get (header c) "emd_group_type" = Some (AStr "file") /\ has (header c) "UUID" = true.
Proof. intros c. repeat split; reflexivity. Qed.
Print Assumptions C05_header_carries_program_and_user.

Theorem C05_bundle_created_by_append_is_tagged :
  forall ao mds rg rg', mds <> [] -> has (olinks rg) "metadatabundle" = false ->
    append_root_metadata ao mds rg = Ok rg' ->
    exists b, get (olinks rg') "metadatabundle" = Some b /\ attr_is b "emd_group_type" "metadatabundle" = true.
Proof. exact appended_bundle_tagged. Qed.
Print Assumptions C05_bundle_created_by_append_is_tagged.

(* ---------- the whole validator.  wf_emd (Proofs/PWf.v) is the Coq twin of the h5py-only validator the harness runs on
   every real file: header (type "file", version 1.0, UUID, program and user of the session), at least one top-level
   group, each tagged root; every node group tagged with a data group type and a python_class; an Array group with
   its data (units) and one named calibration dataset with units per axis, of 2 entries or the axis extent; metadata
   in a tagged bundle of tagged Metadata groups of typed items; no scratch group.  plain_tree: nodes below the top are
   not Roots, are not called like the bundle and have no scratch-like name. *)
Theorem C05_a_saved_whole_tree_passes_the_validator :
  forall c root tr f, rcls root = CRoot -> ok_tree root -> plain_tree root -> tr <> Some false ->
    fresh_file c root [] tr = Ok f -> wf_emd c f = true.
Proof.
  intros c root tr f Hc Hok Hp Htr Hf. rewrite (fresh_file_whole_tree c root tr Hc Hok Htr) in Hf. injection Hf as <-.
  apply (wf_whole_file c root Hc Hp).
Qed.
Print Assumptions C05_a_saved_whole_tree_passes_the_validator.

(* ... and every partial save into a fresh file (node alone / node with its branch / the branch below the node): each
   such file is the file of a smaller tree *)
Theorem C05_every_partial_save_passes_the_validator :
  forall c root tp data tr f,
    rcls root = CRoot -> plain_tree root -> tp <> [] -> rwalk root tp = Some data -> ok_tree data ->
    ~ In (rname data) (keys (shallow_links root)) ->
    (forall k, In k (rkids data) -> ~ In (rname k) (keys (shallow_links root))) ->
    fresh_file c root tp tr = Ok f -> wf_emd c f = true.
Proof.
  intros c root tp data tr f Hc Hp Hne Hw Hok Hn Hk Hf.
  destruct (wf_partial_saves c root tp data Hc Hp Hne Hw) as (A & B & C).
  destruct tr as [[|]|].
  - rewrite (partial_save_node_and_branch c root tp data Hc Hne Hw Hn Hok) in Hf. injection Hf as <-. exact B.
  - rewrite (partial_save_node_alone c root tp data Hc Hne Hw Hn) in Hf. injection Hf as <-. exact A.
  - rewrite (partial_save_branch_only c root tp data Hc Hne Hw Hok Hk) in Hf. injection Hf as <-. exact C.
Qed.
Print Assumptions C05_every_partial_save_passes_the_validator.

(* ... and so does the file an append leaves (any append mode, whole runtime tree, same root; hypotheses of C09's union) *)
Theorem C05_the_file_after_an_append_passes_the_validator :
  forall c c0 m root md tr,
    In md appendmode -> tr <> Some false ->
    rcls m = CRoot -> rname root = rname m -> ok_tree m -> compat m root ->
    (rmds m <> [] \/ rmds root = []) -> NoDup (keys (rmds root)) ->
    plain_tree m -> plain_tree root ->
    exists f, write_node c (H5 (whole_file c0 m)) root [] (WA md tr None) = (Ok tt, H5 f) /\ wf_emd c0 f = true.
Proof. exact wf_after_append. Qed.
Print Assumptions C05_the_file_after_an_append_passes_the_validator.

(* ... and the file an append-over leaves (C09's union + replace) *)
Theorem C05_the_file_after_an_appendover_passes_the_validator :
  forall c c0 m root md tr,
    In md appendovermode -> tr <> Some false ->
    rcls m = CRoot -> rname root = rname m -> rmds root = [] -> compat_ao root (shallow_links m) (rkids m) ->
    plain_tree m -> plain_tree root ->
    exists f, write_node c (H5 (whole_file c0 m)) root [] (WA md tr None) = (Ok tt, H5 f) /\ wf_emd c0 f = true.
Proof. exact wf_after_appendover. Qed.
Print Assumptions C05_the_file_after_an_appendover_passes_the_validator.

(* appends aimed inside an existing tree: an inner node saved in append mode, and the same given an emdpath (the whole tree
   at 'root/p'; an inner node with an emdpath naming itself or its parent).  The file is the encoding of the tree with the
   node at p replaced by the union (Proofs/PSubst.v), hence valid. *)
Theorem C05_the_file_after_an_inner_node_append_passes_the_validator :
  forall c0 m root p km d2 md tr,
    In md appendmode -> tr <> Some false ->
    rcls m = CRoot -> rname root = rname m -> rmds root = [] -> ok_tree m -> p <> [] ->
    rwalk m p = Some km -> rwalk root p = Some d2 -> compat km d2 ->
    plain_tree m -> plain_tree d2 ->
    exists f, append_existing root p (WA md tr None) md (whole_file c0 m) = Ok f /\ wf_emd c0 f = true.
Proof. exact wf_after_inner_node_append. Qed.
Print Assumptions C05_the_file_after_an_inner_node_append_passes_the_validator.

Theorem C05_the_file_after_an_append_at_an_emdpath_passes_the_validator :
  forall c0 m root p km d2 md tr,
    In md appendmode -> tr <> Some false ->
    rcls m = CRoot -> rname root = rname m -> rmds root = [] -> ok_tree m -> p <> [] ->
    rwalk m p = Some km -> rwalk root p = Some d2 -> compat km d2 ->
    plain_tree m -> plain_tree d2 ->
    Forall (fun s => s <> "" /\ no_slash s = true) (rname m :: p) ->
    exists f, append_existing root [] (WA md tr (Some (join_slash (rname m :: p)))) md (whole_file c0 m) = Ok f /\ wf_emd c0 f = true.
Proof. exact wf_after_an_append_at_an_emdpath. Qed.
Print Assumptions C05_the_file_after_an_append_at_an_emdpath_passes_the_validator.

Theorem C05_the_file_after_an_inner_node_append_with_an_emdpath_passes_the_validator :
  forall c0 m root p km d2 md tr ep_path,
    In md appendmode -> tr <> Some false ->
    rcls m = CRoot -> rname root = rname m -> rmds root = [] -> ok_tree m -> p <> [] ->
    rwalk m p = Some km -> rwalk root p = Some d2 -> compat km d2 ->
    plain_tree m -> plain_tree d2 ->
    Forall (fun s => s <> "" /\ no_slash s = true) (rname m :: p) ->
    (ep_path = p \/ ep_path = removelast p) ->
    exists f, append_existing root p (WA md tr (Some (join_slash (rname m :: ep_path)))) md (whole_file c0 m) = Ok f /\ wf_emd c0 f = true.
Proof. exact wf_after_an_inner_node_append_with_an_emdpath. Qed.
Print Assumptions C05_the_file_after_an_inner_node_append_with_an_emdpath_passes_the_validator.

(* a foreign tree (root name the file lacks) placed whole under the emdpath target 'root/p' *)
Theorem C05_the_file_after_a_foreign_tree_is_placed_under_an_emdpath_passes_the_validator :
  forall c0 m root p kt md tr,
    rcls m = CRoot -> rname root <> rname m -> ok_tree m -> rwalk m p = Some kt -> tr <> Some false -> ok_tree root ->
    (forall k, In k (rkids root) -> ~ In (rname k) (keys (olinks (enc kt)))) ->
    Forall (fun s => s <> "" /\ no_slash s = true) (rname m :: p) ->
    plain_tree m -> plain_tree root ->
    exists f, append_existing root [] (WA md tr (Some (join_slash (rname m :: p)))) md (whole_file c0 m) = Ok f /\ wf_emd c0 f = true.
Proof. exact wf_after_a_foreign_tree_under_an_emdpath. Qed.
Print Assumptions C05_the_file_after_a_foreign_tree_is_placed_under_an_emdpath_passes_the_validator.

(* a foreign inner node under an emdpath, for each tree flag: placed data tr = the node with its branch / the node alone /
   the branch below it *)
Theorem C05_the_file_after_a_foreign_node_is_placed_under_an_emdpath_passes_the_validator :
  forall c0 m root tp data p kt md tr,
    rcls m = CRoot -> rname root <> rname m -> ok_tree m -> rwalk m p = Some kt ->
    tp <> [] -> rwalk root tp = Some data -> ok_tree data ->
    (forall k, In k (placed data tr) -> ~ In (rname k) (keys (olinks (enc kt)))) ->
    Forall (fun s => s <> "" /\ no_slash s = true) (rname m :: p) ->
    plain_tree m ->
    Forall (fun k => plain (rname k) = true /\ rname k <> "metadatabundle" /\ rcls k <> CRoot /\ plain_tree k) (placed data tr) ->
    exists f, append_existing root tp (WA md tr (Some (join_slash (rname m :: p)))) md (whole_file c0 m) = Ok f /\ wf_emd c0 f = true.
Proof. exact wf_after_a_foreign_node_under_an_emdpath. Qed.
Print Assumptions C05_the_file_after_a_foreign_node_is_placed_under_an_emdpath_passes_the_validator.

(* append-over of an inner node (replaced in its parent, file-only children kept), and of the whole tree at an emdpath *)
Theorem C05_the_file_after_an_inner_node_appendover_passes_the_validator :
  forall c0 m root q x pk km data md,
    In md appendovermode ->
    rcls m = CRoot -> rname root = rname m -> rmds root = [] -> ok_tree m ->
    rwalk m q = Some pk -> rwalk m (q ++ [x]) = Some km ->
    rwalk root (q ++ [x]) = Some data -> rname data = x ->
    compat_ao (RN CNode "" 0%Z 0 [] [data]) (shallow_links pk) (rkids pk) ->
    plain_tree m -> plain (rname data) = true -> rname data <> "metadatabundle" -> rcls data <> CRoot -> plain_tree data ->
    exists f, append_existing root (q ++ [x]) (WA md (Some true) None) md (whole_file c0 m) = Ok f /\ wf_emd c0 f = true.
Proof. exact wf_after_inner_node_appendover. Qed.
Print Assumptions C05_the_file_after_an_inner_node_appendover_passes_the_validator.

Theorem C05_the_file_after_an_appendover_of_the_branch_below_an_inner_node_passes_the_validator :
  forall c0 m root p km data md,
    In md appendovermode ->
    rcls m = CRoot -> rname root = rname m -> rmds root = [] -> ok_tree m -> p <> [] ->
    rwalk m p = Some km -> rwalk root p = Some data ->
    compat_ao data (shallow_links km) (rkids km) ->
    plain_tree m -> plain_tree data ->
    exists f, append_existing root p (WA md None None) md (whole_file c0 m) = Ok f /\ wf_emd c0 f = true.
Proof. exact wf_after_inner_node_appendover_branch. Qed.
Print Assumptions C05_the_file_after_an_appendover_of_the_branch_below_an_inner_node_passes_the_validator.

Theorem C05_the_file_after_an_appendover_of_an_inner_node_alone_passes_the_validator :
  forall c0 m root q x pk km data md,
    In md appendovermode ->
    rcls m = CRoot -> rname root = rname m -> rmds root = [] -> ok_tree m ->
    rwalk m q = Some pk -> rwalk m (q ++ [x]) = Some km ->
    rwalk root (q ++ [x]) = Some data -> rname data = x ->
    compat_ao (RN CNode "" 0%Z 0 [] [with_kids data []]) (shallow_links pk) (rkids pk) ->
    plain_tree m -> plain (rname data) = true -> rname data <> "metadatabundle" -> rcls data <> CRoot ->
    exists f, append_existing root (q ++ [x]) (WA md (Some false) None) md (whole_file c0 m) = Ok f /\ wf_emd c0 f = true.
Proof. exact wf_after_inner_node_appendover_alone. Qed.
Print Assumptions C05_the_file_after_an_appendover_of_an_inner_node_alone_passes_the_validator.

Theorem C05_the_file_after_an_appendover_at_an_emdpath_passes_the_validator :
  forall c0 m root q x pk km data md,
    In md appendovermode ->
    rcls m = CRoot -> rname root = rname m -> rmds root = [] -> ok_tree m ->
    rwalk m q = Some pk -> rwalk m (q ++ [x]) = Some km ->
    rwalk root (q ++ [x]) = Some data -> rname data = x ->
    compat_ao (RN CNode "" 0%Z 0 [] [data]) (shallow_links pk) (rkids pk) ->
    plain_tree m -> plain (rname data) = true -> rname data <> "metadatabundle" -> rcls data <> CRoot -> plain_tree data ->
    Forall (fun s => s <> "" /\ no_slash s = true) (rname m :: q ++ [x]) ->
    exists f, append_existing root [] (WA md (Some true) (Some (join_slash (rname m :: q ++ [x])))) md (whole_file c0 m) = Ok f /\ wf_emd c0 f = true.
Proof. exact wf_after_an_appendover_at_an_emdpath. Qed.
Print Assumptions C05_the_file_after_an_appendover_at_an_emdpath_passes_the_validator.

(* ... files holding several trees (successive saves under new root names: C10) and list saves of roots, unrooted
   nodes, arrays and dicts into a fresh file *)
Theorem C05_a_file_of_several_trees_passes_the_validator :
  forall c ts, ts <> [] -> Forall (fun t => rcls t = CRoot /\ plain_tree t) ts -> wf_emd c (forest_file c ts) = true.
Proof. exact wf_forest_file. Qed.
Print Assumptions C05_a_file_of_several_trees_passes_the_validator.

(* ... and so does the file after ANY history of whole-tree saves into it (new trees, appends, append-overs, any order; hgood
   and happly as in C10) *)
Theorem C05_the_file_after_any_history_of_whole_tree_saves_passes_the_validator :
  forall c c0 steps ts,
    ts <> [] -> Forall (fun t => rcls t = CRoot /\ plain_tree t) ts -> NoDup (map rname ts) -> hgood ts steps ->
    Forall (fun st => rcls (hroot st) = CRoot /\ plain_tree (hroot st)) steps ->
    exists f, fold_left (fun s st => snd (write_node c s (hroot st) [] (WA (hmode st) (htree st) None))) steps (H5 (forest_file c0 ts)) = H5 f /\
              wf_emd c0 f = true.
Proof. exact wf_after_any_history. Qed.
Print Assumptions C05_the_file_after_any_history_of_whole_tree_saves_passes_the_validator.

Theorem C05_a_list_save_passes_the_validator :
  forall c tops items md tr,
    no_rooted_items items -> nodup_nat (list_unrooted_idx tops items) = true -> In md allmodes ->
    let trees := list_saved tops items ++ list_given tops items in
    trees <> [] -> Forall (fun t => rcls t = CRoot /\ plain_tree t) trees -> Forall ok_tree trees -> NoDup (map rname trees) ->
    exists f, write_list c Absent tops items (WA md tr None) = (Ok tt, H5 f) /\ wf_emd c f = true.
Proof. exact wf_list_save. Qed.
Print Assumptions C05_a_list_save_passes_the_validator.

(* a list mixing roots, unrooted nodes, arrays, dicts and rooted nodes of several roots (see C10) *)
Theorem C05_a_mixed_list_save_passes_the_validator :
  forall c tops items md tr,
    nodup_nat (list_unrooted_idx tops items) = true -> list_conflict tops items = false -> In md allmodes ->
    let base := (list_saved tops items ++ list_given tops items) ++ list_copies tops items in
    base <> [] -> Forall (fun t => rcls t = CRoot /\ plain_tree t) base -> Forall ok_tree base -> NoDup (map rname base) ->
    Forall (fun it => let r := nth (fst it) tops dummy in
              rcls r = CRoot /\ rname r <> "" /\ no_slash (rname r) = true /\ NoDup (keys (rmds r)) /\
              exists x data, snd it = [x] /\ rwalk r [x] = Some data /\ rname data = x /\ x <> "metadatabundle" /\
                             plain x = true /\ rcls data <> CRoot) (list_rooted items) ->
    NoDup (map (fun it => (rname (nth (fst it) tops dummy), snd it)) (list_rooted items)) ->
    exists f, write_list c Absent tops items (WA md tr None) = (Ok tt, H5 f) /\ wf_emd c f = true.
Proof. exact wf_mixed_list_save. Qed.
Print Assumptions C05_a_mixed_list_save_passes_the_validator.

Theorem C05_a_mixed_list_appended_to_an_existing_file_passes_the_validator :
  forall c tops items md tr ts,
    In md (appendmode ++ appendovermode) -> ts <> [] -> Forall (fun t => rcls t = CRoot /\ plain_tree t) ts ->
    nodup_nat (list_unrooted_idx tops items) = true -> list_conflict tops items = false ->
    let base := (list_saved tops items ++ list_given tops items) ++ list_copies tops items in
    Forall (fun t => rcls t = CRoot /\ plain_tree t) base -> Forall ok_tree base -> NoDup (map rname (ts ++ base)) ->
    Forall (fun it => let r := nth (fst it) tops dummy in
              rcls r = CRoot /\ rname r <> "" /\ no_slash (rname r) = true /\ NoDup (keys (rmds r)) /\
              exists x data, snd it = [x] /\ rwalk r [x] = Some data /\ rname data = x /\ x <> "metadatabundle" /\
                             plain x = true /\ rcls data <> CRoot) (list_rooted items) ->
    NoDup (map (fun it => (rname (nth (fst it) tops dummy), snd it)) (list_rooted items)) ->
    exists f, write_list c (H5 (forest_file c ts)) tops items (WA md tr None) = (Ok tt, H5 f) /\ wf_emd c f = true.
Proof. exact wf_mixed_list_into_an_existing_file. Qed.
Print Assumptions C05_a_mixed_list_appended_to_an_existing_file_passes_the_validator.

(* ---------- the one clause of harness/validator.py that wf_emd does not carry: no scratch name among the entries of any metadata
   bundle (Proofs/PScratch.v).  Every file that is the encoding of trees has it when the trees' own metadata keys are not
   scratch names -- and the trees the append / append-over theorems arrive at (union, union + replace) keep that hypothesis *)
Theorem C05_no_scratch_entry_in_any_metadata_bundle_of_written_trees :
  forall c ts, Forall (fun t => rname t <> "metadatabundle" /\ md_keys_plain t) ts -> bundles_clean (forest_file c ts) = true.
Proof. exact forest_file_bundles_clean. Qed.
Print Assumptions C05_no_scratch_entry_in_any_metadata_bundle_of_written_trees.

Theorem C05_union_and_replacement_keep_metadata_keys_free_of_scratch_names :
  forall T root, md_keys_plain T -> md_keys_plain root ->
    md_keys_plain (union_root T root) /\ md_keys_plain (with_kids T (aom root (rkids T))).
Proof. intros T root HT Hr. split; [apply md_keys_plain_union_root|apply md_keys_plain_appendover]; assumption. Qed.
Print Assumptions C05_union_and_replacement_keep_metadata_keys_free_of_scratch_names.

Example C05_bundle_clause_rejects :
  bundles_clean (G [] [("r", G [] [("metadatabundle", G [] [("_tmp_m1", md_group 1); ("m1", md_group 2)])])]) = false.
Proof. vm_compute. reflexivity. Qed.

(* the validator is not vacuous: it rejects an untagged child group, a missing calibration dataset and a scratch group *)
Example C05_validator_rejects :
  let c := CFG "emdfile" "" in
  let ok := RN CRoot "r" 0%Z 0 [] [RN CArray "a" 7%Z 2 [("m", 1%Z)] []] in
  wf_emd c (whole_file c ok) = true /\
  wf_emd c (G (header c) [("r", G (tags "root" "Root") [("x", G [] [])])]) = false /\
  wf_emd c (G (header c) [("r", G (tags "root" "Root") [("a", G (tags "array" "Array") [("data", D [("units", AStr "")] [3; 3]%nat 7%Z); dim_dataset 0])])]) = false /\
  wf_emd c (G (header c) [("r", G (tags "root" "Root") [("_tmp_a", G (tags "node" "Node") [])])]) = false /\
  wf_emd c (G [] [("r", G (tags "root" "Root") [])]) = false.
Proof. vm_compute. repeat split. Qed.
