(* C15 -- whatever save accepts, read returns: unsupported input is rejected at save time.  Statements only.
   The TOTAL (hypothesis-free about the kind of input) versions of the codec theorems.  PARTIAL: proved for the
   metadata value codec over its whole value universe and for the Array calibration codec over all extents (zero
   included); names / reserved words / PointList edge inputs are decided on the real code by the oracle stream. *)
From Coq Require Import ZArith List PrimFloat.
From Emd Require Import Base.Prelude Model.Md Model.Arr Proofs.P03 Proofs.P14 Proofs.P02 Proofs.P15.

(* For EVERY value -- numpy scalars, bytes, sets (MOther), mixed / nested sequences, tuples of tuples of anything, ... --
   save_item either fails, or the item it wrote reads back to a kind-sensitively equal value.
   clean v excludes exactly the two known findings (the str "_None"; ints beyond 2^53 next to floats);
   wf_dicts v says v is a Python value: dict keys pairwise distinct. *)
Theorem C15_metadata_save_fails_or_read_returns_equal :
  forall v it, save_item v = Ok it -> clean v = true -> wf_dicts v = true ->
    exists v', read_item it = Ok v' /\ mequiv v v' = true.
Proof. exact md_total. Qed.
Print Assumptions C15_metadata_save_fails_or_read_returns_equal.

(* keys that HDF5 would misread are rejected at save time *)
Theorem C15_bad_keys_rejected :
  forall k v rest, valid_key k = false -> exists e, save_item (MDict ((k, v) :: rest)) = Err e.
Proof. intros k v rest H. cbn [save_item]. rewrite H. eauto. Qed.
Print Assumptions C15_bad_keys_rejected.
Example C15_bad_keys : valid_key "a/b" = false /\ valid_key "" = false /\ valid_key "." = false /\ valid_key "a b" = true.
Proof. repeat split; reflexivity. Qed.

(* unsupported kinds are rejected, not stored as something else *)
Theorem C15_unsupported_kinds_rejected :
  (forall s, exists e, save_item (MBytes s) = Err e) /\ (exists e, save_item MOther = Err e) /\
  (forall x y r, is_tuple y = false -> exists e, save_item (MList (MTuple x :: y :: r)) = Err e).
Proof. repeat split; intros; cbn; eauto. Qed.
Print Assumptions C15_unsupported_kinds_rejected.

(* Array calibrations: the round trip of C02 holds for ALL extents, zero-length axes included *)
Theorem C15_array_calibrations_any_extent :
  forall a, arr_inv a ->
    (forall d, a_depth a = Some d -> length (a_labels a) = d) -> (a_depth a = None -> a_labels a = []) ->
    exists a', arr_load (arr_store a) = Ok a' /\
      a_shape a' = a_shape a /\ a_depth a' = a_depth a /\ a_units a' = a_units a /\ a_names a' = a_names a /\
      a_labels a' = a_labels a /\ Forall2 dimv_equiv (a_dims a) (a_dims a').
Proof. exact calibration_roundtrip. Qed.
Print Assumptions C15_array_calibrations_any_extent.
Example C15_zero_length_axis :
  exists a a', arr_init [0; 3] [] [] [] LNone = Ok a /\ arr_load (arr_store a) = Ok a' /\ a_shape a' = [0; 3].
Proof. eexists. eexists. split; [reflexivity|]. split; reflexivity. Qed.

(* non-vacuity of the total theorem on an undocumented input that save accepts *)
Example C15_accepts_numpy_scalars_and_numbers_in_tuples_of_tuples :
  let v := MTuple [MTuple [MNp (SF 0x1p-1%float); MSc (SI 2)]; MSc (SI 3)] in
  exists it, save_item v = Ok it /\ clean v = true /\ wf_dicts v = true.
Proof. cbv zeta. eexists. split; [vm_compute; reflexivity|]. split; vm_compute; reflexivity. Qed.
