(* C04 -- PointList and PointListArray round-trip: fields, dtypes, ragged contents.  Statements only.
   PARTIAL: column and cell CONTENTS are tokens -- that h5py stores a column / a variable-length cell and hands it back
   is observed by the harness (digest of dtype + bytes), not modelled.  Proved is what emdfile itself does. *)
From Emd Require Import Base.Prelude Model.Pl Proofs.P04.

(* the field dtype survives its string form, for every scalar dtype HDF5 can hold *)
Theorem C04_field_dtype_survives_its_string_form :
  forall d, valid_dtype d = true -> dtype_of_str (dtype_to_str d) = Some d.
Proof. exact dtype_str_roundtrip. Qed.
Print Assumptions C04_field_dtype_survives_its_string_form.

(* same length; in name order exactly the original fields, each with its dtype and content *)
Theorem C04_pointlist_round_trip :
  forall p, pl_fields p <> [] -> forallb (fun f => valid_dtype (f_dtype f)) (pl_fields p) = true ->
    pl_load (pl_store p) = Ok (PLV (pl_len p) (map snd (ksort (keyed (pl_fields p))))).
Proof. exact pl_roundtrip. Qed.
Print Assumptions C04_pointlist_round_trip.
Theorem C04_same_set_of_fields :
  forall p f, In f (map snd (ksort (keyed (pl_fields p)))) <-> In f (pl_fields p).
Proof. exact pl_same_fields. Qed.
Print Assumptions C04_same_set_of_fields.

(* every cell holds exactly the points stored in it, including empty cells and zero extents *)
Theorem C04_pointlistarray_round_trip :
  forall p, pla_load (pla_shape p) (pla_dtype p) (faithful_h5 p) = p.
Proof. exact pla_roundtrip. Qed.
Print Assumptions C04_pointlistarray_round_trip.
(* the `except ValueError: pass` of _populate_instance would drop a non-empty cell silently if a read raised *)
Theorem C04_swallowed_read_error_refuted :
  exists p reads, reads <> faithful_h5 p /\ pla_load (pla_shape p) (pla_dtype p) reads <> p.
Proof. exact pla_swallow_refuted. Qed.
Print Assumptions C04_swallowed_read_error_refuted.

Example C04_hypotheses_satisfiable :
  let p := PLV 3 [FLD "y" (DFloat 8 BE) 11; FLD "x" (DBytes "5") 22; FLD "a b" (DInt false 2 LE) 33] in
  pl_fields p <> [] /\ forallb (fun f => valid_dtype (f_dtype f)) (pl_fields p) = true /\
  pl_load (pl_store p) = Ok (PLV 3 [FLD "a b" (DInt false 2 LE) 33; FLD "x" (DBytes "5") 22; FLD "y" (DFloat 8 BE) 11]).
Proof. cbv zeta. split; [discriminate|]. split; vm_compute; reflexivity. Qed.
