(* C07 -- partial save writes exactly the selected part of the tree, always with the root.  Statements only.
   Each theorem gives the COMPLETE content of the fresh file, so "nothing outside the selection is written"
   is the equality itself; root_with root extra = the root's own group (name, tags, all its metadata) + extra. *)
From Emd Require Import Base.Prelude Model.H5 Model.Emd Model.EmdList Generated.Tables Proofs.PTree.

Theorem C07_root_target_whole_tree :
  forall c root tr, rcls root = CRoot -> ok_tree root -> tr <> Some false ->
    fresh_file c root [] tr = Ok (G (header c) [(rname root, enc root)]).
Proof. exact fresh_file_whole_tree. Qed.
Print Assumptions C07_root_target_whole_tree.

Theorem C07_root_target_alone :
  forall c root, rcls root = CRoot ->
    fresh_file c root [] (Some false) = Ok (G (header c) [(rname root, node_shallow root)]).
Proof. exact fresh_file_root_only. Qed.
Print Assumptions C07_root_target_alone.

Theorem C07_node_alone :
  forall c root tp data, rcls root = CRoot -> tp <> [] -> rwalk root tp = Some data ->
    ~ In (rname data) (keys (shallow_links root)) ->
    fresh_file c root tp (Some false) = Ok (G (header c) [(rname root, root_with root [(rname data, node_shallow data)])]).
Proof. exact partial_save_node_alone. Qed.
Print Assumptions C07_node_alone.

Theorem C07_node_with_its_branch :
  forall c root tp data, rcls root = CRoot -> tp <> [] -> rwalk root tp = Some data ->
    ~ In (rname data) (keys (shallow_links root)) -> ok_tree data ->
    fresh_file c root tp (Some true) = Ok (G (header c) [(rname root, root_with root [(rname data, enc data)])]).
Proof. exact partial_save_node_and_branch. Qed.
Print Assumptions C07_node_with_its_branch.

Theorem C07_branch_below_the_node :
  forall c root tp data, rcls root = CRoot -> tp <> [] -> rwalk root tp = Some data -> ok_tree data ->
    (forall k, In k (rkids data) -> ~ In (rname k) (keys (shallow_links root))) ->
    fresh_file c root tp None = Ok (G (header c) [(rname root, root_with root (enc_kids (rkids data)))]).
Proof. exact partial_save_branch_only. Qed.
Print Assumptions C07_branch_below_the_node.

(* an unrooted node is wrapped in a root named after it, carrying no metadata *)
Theorem C07_unrooted_wrapped :
  forall top, rcls top <> CRoot ->
    rooted top [] = (RN CRoot (rname top +++ "_root") 0 0 [] [top], [rname top]).
Proof. intros top H. unfold rooted. destruct (rcls top); congruence. Qed.
Print Assumptions C07_unrooted_wrapped.

Example C07_hypotheses_satisfiable :
  let root := RN CRoot "r" 0%Z 0 [("m1", 5%Z)] [ RN CArray "a" 7%Z 2 [] [ RN CPl "p" 8%Z 0 [] [] ] ] in
  rcls root = CRoot /\ rwalk root ["a"] = Some (RN CArray "a" 7%Z 2 [] [ RN CPl "p" 8%Z 0 [] [] ]) /\
  ~ In "a" (keys (shallow_links root)) /\ ok_tree (RN CArray "a" 7%Z 2 [] [ RN CPl "p" 8%Z 0 [] [] ]).
Proof.
  cbn. repeat split; try (repeat constructor; cbn; intuition discriminate); try (intuition discriminate);
    try (intros k [<-|[]]; cbn; intuition discriminate); try (intros k []).
Qed.
