(* C11 -- write never clobbers, overwrite leaves no residue, append to nothing is write.  Statements only.
   All statements are over the mode tables and the prelude order GENERATED from write.py on every run. *)
From Emd Require Import Base.Prelude Model.H5 Model.Emd Model.EmdList Generated.Tables Proofs.P11.

Theorem C11_write_mode_never_clobbers :
  forall c s root tp a, mem (mode a) writemode = true -> emdpath a = None -> s <> Absent ->
    write_node c s root tp a = (Err EAssert, s).
Proof. exact write_exists_refused. Qed.
Print Assumptions C11_write_mode_never_clobbers.

Theorem C11_unknown_mode_rejected_before_anything_is_touched :
  forall c s root tp a, mem (mode a) allmodes = false -> exists e, write_node c s root tp a = (Err e, s).
Proof. exact unknown_mode_refused. Qed.
Print Assumptions C11_unknown_mode_rejected_before_anything_is_touched.

Theorem C11_unknown_mode_rejected_for_lists :
  forall c s tops items a, mem (mode a) allmodes = false -> exists e, write_list c s tops items a = (Err e, s).
Proof. exact unknown_mode_refused_list. Qed.
Print Assumptions C11_unknown_mode_rejected_for_lists.

Theorem C11_overwrite_equals_fresh_save :
  forall c s root tp a, mem (mode a) overwritemode = true -> emdpath a = None ->
    write_node c s root tp a = write_node c Absent root tp (with_mode a "w").
Proof. exact overwrite_is_fresh. Qed.
Print Assumptions C11_overwrite_equals_fresh_save.

Theorem C11_append_to_nothing_is_write :
  forall c root tp a, mem (mode a) appendmode = true \/ mem (mode a) appendovermode = true ->
    write_node c Absent root tp a = write_node c Absent root tp (with_mode a "w").
Proof. exact append_absent_is_write. Qed.
Print Assumptions C11_append_to_nothing_is_write.

Theorem C11_emdpath_turns_write_into_append :
  forall c s root tp a ep, emdpath a = Some ep -> mem (mode a) writemode = true \/ mem (mode a) overwritemode = true ->
    write_node c s root tp a = write_node c s root tp (with_mode a "a").
Proof. exact emdpath_turns_write_into_append. Qed.
Print Assumptions C11_emdpath_turns_write_into_append.

(* non-vacuity: the generated tables are the documented ones and pairwise disjoint *)
Example C11_tables : allmodes = ["w"; "write"; "o"; "overwrite"; "a"; "+"; "append"; "oa"; "ao"; "o+"; "+o"; "appendover"]
  /\ mem "w" writemode = true /\ mem "bogus" allmodes = false /\ NoDup allmodes.
Proof. repeat split; try reflexivity. repeat (constructor; [cbn; intuition discriminate|]). constructor. Qed.
