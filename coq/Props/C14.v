(* C14 -- array calibrations match the data: one dim vector per axis, of the axis length.  Statements only.
   PARTIAL for floats: proved are the LENGTH (for all binary64 inputs) and that entry i is the binary64 value
   start + (b - a) * i; equality with the exact rational ramp is proved for integer entries only. *)
From Coq Require Import ZArith List PrimFloat.
From Emd Require Import Base.Prelude Model.Arr Proofs.P14.

Theorem C14_construction_gives_one_dim_vector_per_axis_of_the_axis_length :
  forall datashape dims units names labels a, arr_init datashape dims units names labels = Ok a -> arr_inv a.
Proof. exact init_inv. Qed.
Print Assumptions C14_construction_gives_one_dim_vector_per_axis_of_the_axis_length.

Theorem C14_set_dim_keeps_it : forall a n d u nm a', arr_inv a -> set_dim a n d u nm = Ok a' -> arr_inv a'.
Proof. exact set_dim_inv. Qed.
Print Assumptions C14_set_dim_keeps_it.
Theorem C14_set_dim_units_keeps_it : forall a n u a', arr_inv a -> set_dim_units a n u = Ok a' -> arr_inv a'.
Proof. exact set_dim_units_inv. Qed.
Print Assumptions C14_set_dim_units_keeps_it.
Theorem C14_set_dim_name_keeps_it : forall a n s a', arr_inv a -> set_dim_name a n s = Ok a' -> arr_inv a'.
Proof. exact set_dim_name_inv. Qed.
Print Assumptions C14_set_dim_name_keeps_it.

(* expansion always has the axis length: every int, every binary64 start/step (0.1, 1/3, denormals, inf, nan) *)
Theorem C14_expansion_has_the_axis_length : forall d n v, unpack_dim d n = Ok v -> dimv_len v = n.
Proof. exact unpack_len. Qed.
Print Assumptions C14_expansion_has_the_axis_length.

Theorem C14_omitted_entry_is_0_to_N_minus_1 : forall n, unpack_dim DNone n = Ok (VNum (iota n)).
Proof. exact unpack_none. Qed.
Print Assumptions C14_omitted_entry_is_0_to_N_minus_1.

Theorem C14_integer_pair_is_the_exact_ramp :
  forall a b n, unpack_dim (DList [NI a; NI b]) n = Ok (VNum (map (fun i => NI (a + (b - a) * Z.of_nat i)) (seq 0 n))).
Proof. exact unpack_int_pair. Qed.
Print Assumptions C14_integer_pair_is_the_exact_ramp.
Theorem C14_integer_number_is_the_exact_ramp :
  forall x n, unpack_dim (DNumber (NI x)) n = Ok (VNum (map (fun i => NI (x * Z.of_nat i)) (seq 0 n))).
Proof. exact unpack_int_number. Qed.
Print Assumptions C14_integer_number_is_the_exact_ramp.
Theorem C14_float_pair_formula :
  forall a b n, n <> 2 -> unpack_dim (DList [a; b]) n = Ok (VNum (map (ramp_at a (num_sub b a)) (seq 0 n))).
Proof. exact unpack_float_pair. Qed.
Print Assumptions C14_float_pair_formula.
Theorem C14_full_vector_kept_as_given : forall xs n, length xs = n -> unpack_dim (DList xs) n = Ok (VNum xs).
Proof. exact unpack_full. Qed.
Print Assumptions C14_full_vector_kept_as_given.

Theorem C14_units_supplied_are_kept :
  forall datashape dims units names labels a k, arr_init datashape dims units names labels = Ok a ->
    k < length units -> k < a_rank a -> nth k (a_units a) "" = nth k units "".
Proof. exact init_units_kept. Qed.
Print Assumptions C14_units_supplied_are_kept.
Theorem C14_names_supplied_are_kept :
  forall datashape dims units names labels a k, arr_init datashape dims units names labels = Ok a ->
    k < length names -> k < a_rank a -> nth k (a_names a) "" = nth k names "".
Proof. exact init_names_kept. Qed.
Print Assumptions C14_names_supplied_are_kept.
Theorem C14_default_units :
  forall datashape dims units names labels a k, arr_init datashape dims units names labels = Ok a ->
    length units <= k -> k < a_rank a ->
    nth k (a_units a) "" = if is_none (nth k (pad_to dims (a_rank a) (fun _ => DNone) 0) DNone) then "pixels" else "unknown".
Proof. exact init_default_units. Qed.
Print Assumptions C14_default_units.

Theorem C14_stack_shape :
  forall d s dims units names ls a, ls <> LNone -> arr_init (d :: s) dims units names ls = Ok a ->
    a_depth a = Some d /\ a_shape a = s /\ a_rank a = length s.
Proof. exact stack_shape. Qed.
Print Assumptions C14_stack_shape.
Theorem C14_label_i_addresses_slice_i_with_same_calibrations :
  forall a k, NoDup (a_labels a) -> a_depth a <> None -> k < length (a_labels a) ->
    get_slice a (nth k (a_labels a) "") = Ok (k, ARR (a_shape a) None (a_dims a) (a_units a) (a_names a) []).
Proof. exact slice_by_label. Qed.
Print Assumptions C14_label_i_addresses_slice_i_with_same_calibrations.

(* the NoDup hypothesis is forced: with a repeated label the first of the two slices is not addressable (known finding) *)
Theorem C14_duplicate_labels_refuted :
  exists a, a_depth a <> None /\ fst (match get_slice a (nth 0 (a_labels a) "") with Ok r => r | Err _ => (9, a) end) <> 0.
Proof. exists (ARR [2] (Some 2) [VNum [NI 0; NI 1]] ["u"] ["n"] ["x"; "x"]). split; [discriminate|vm_compute; discriminate]. Qed.
Print Assumptions C14_duplicate_labels_refuted.

(* non-vacuity, and the inexact step 0.1: three entries for an axis of three (numpy's arange gave four) *)
Example C14_step_one_tenth :
  match unpack_dim (DNumber (NF 0x1.999999999999ap-4%float)) 3 with Ok v => dimv_len v = 3 | Err _ => False end.
Proof. vm_compute. reflexivity. Qed.
Definition ex_a : arr := ARR [3; 4] (Some 2) [VNum [NI 0; NI 1; NI 2]; VNum [NI 1; NI 3; NI 5; NI 7]] ["nm"; "unknown"] ["dim0"; "dim1"] ["s"; "array1"].
Example C14_hypotheses_satisfiable :
  arr_init [2; 3; 4] [DNone; DList [NI 1; NI 3]] ["nm"] [] (LList ["s"]) = Ok ex_a /\ arr_inv ex_a /\ NoDup (a_labels ex_a).
Proof.
  assert (arr_init [2; 3; 4] [DNone; DList [NI 1; NI 3]] ["nm"] [] (LList ["s"]) = Ok ex_a) as E by (vm_compute; reflexivity).
  split; [exact E|]. split; [eapply init_inv; exact E|].
  unfold ex_a. cbn [a_labels]. repeat (constructor; [cbn [In]; intuition discriminate|]). constructor.
Qed.
