(* C17 -- legacy EMD 0.1 files are imported faithfully; everything else is refused.  Statements only.
   The scan runs over arbitrary HDF5 objects (the model of h5py's visititems over the raw file). *)
From Coq Require Import List Arith.
From Emd Require Import Base.Prelude Model.H5 Model.Emd Model.Legacy Generated.Tables Proofs.P17.

Theorem C17_not_hdf5_is_refused : forall t, exists e, read_other (Raw t) = Err e.
Proof. exact refuse_raw. Qed.
Print Assumptions C17_not_hdf5_is_refused.

Theorem C17_hdf5_without_any_data_group_is_refused :
  forall f, is_emd_file f = false -> scan (canon_links f) = [] -> exists e, read_other (H5 f) = Err e.
Proof. exact refuse_plain_h5. Qed.
Print Assumptions C17_hdf5_without_any_data_group_is_refused.

(* data groups are found at any depth of ordinary groups *)
Theorem C17_scan_finds_every_data_group :
  forall o p k g, lookup o (p ++ [k]) = Some g -> is_v01_group g = true -> In (k, g) (scan o).
Proof. exact scan_finds_every_data_group. Qed.
Print Assumptions C17_scan_finds_every_data_group.

(* each data group becomes an Array with the group's name, the same data, and for each axis the dim vector, name and
   units of the corresponding 1-based dim dataset *)
Theorem C17_group_imported_faithfully :
  forall name g a, read_group01 name g = Ok a ->
    la_name a = name /\
    (exists at_, get (olinks g) "data" = Some (D at_ (la_shape a) (la_tok a))) /\
    length (la_dims a) = length (la_shape a) /\
    forall j, j < length (la_shape a) -> exists at_ n t u nm,
      get (olinks g) ("dim" +++ nat_str (S j)) = Some (D at_ [n] t) /\ get at_ "units" = Some (AStr u) /\ get at_ "name" = Some (AStr nm) /\
      nth j (la_dims a) (LD 0 0 "" "") = LD t n nm u /\ (n = nth j (la_shape a) 0 \/ n = 2).
Proof. exact group_import_faithful. Qed.
Print Assumptions C17_group_imported_faithfully.

Theorem C17_one_data_group_gives_a_single_array :
  forall f k g a, is_emd_file f = false -> scan (canon_links f) = [(k, g)] -> read_group01 k g = Ok a ->
    read_other (H5 f) = Ok (LArray a).
Proof. exact single_group_gives_an_array. Qed.
Print Assumptions C17_one_data_group_gives_a_single_array.

(* forced hypothesis: pairwise distinct group names (known finding: same-named groups overwrite one another) *)
Theorem C17_several_data_groups_give_a_root_holding_all :
  forall f gs arrs, is_emd_file f = false -> scan (canon_links f) = gs -> 2 <= length gs ->
    Forall2 (fun kg a => read_group01 (fst kg) (snd kg) = Ok a) gs arrs -> NoDup (map la_name arrs) ->
    read_other (H5 f) = Ok (LRoot arrs).
Proof. exact several_groups_give_a_root_holding_all. Qed.
Print Assumptions C17_several_data_groups_give_a_root_holding_all.

Definition ex_grp (t : Z) : obj :=
  G [("emd_group_type", AInt 1)] [("data", D [] [2] t); ("dim1", D [("name", AStr "x"); ("units", AStr "nm")] [2] 5)].
Theorem C17_same_named_groups_refuted :
  exists f, read_other (H5 f) = Ok (LRoot [LA "d" [2] 8 [LD 5 2 "x" "nm"]]) /\ length (scan (canon_links f)) = 2.
Proof. exists (G [] [("a", G [] [("d", ex_grp 7)]); ("b", G [] [("d", ex_grp 8)])]). split; vm_compute; reflexivity. Qed.
Print Assumptions C17_same_named_groups_refuted.

Example C17_hypotheses_satisfiable :
  let f := G [] [("user", G [] [("img", ex_grp 7)]); ("z", D [] [3] 0)] in
  is_emd_file f = false /\ scan (canon_links f) = [("img", ex_grp 7)] /\ read_group01 "img" (ex_grp 7) = Ok (LA "img" [2] 7 [LD 5 2 "x" "nm"]).
Proof. cbv zeta. repeat split; vm_compute; reflexivity. Qed.
