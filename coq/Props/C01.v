(* C01 -- tree round-trip: every node comes back at its path with its class.  Statements only.
   Both halves are proved for every tree: what the writer puts in the file (write_tree = enc), and what the reader
   makes of that file (populate o enc = canon): the same tree, every node with its class, name, payload and metadata,
   children and metadata listed in name order (h5py's link order).  Payloads are content tokens here; the per-class
   codecs are C02-C04. *)
From Emd Require Import Base.Prelude Model.H5 Model.Emd Model.Reader Generated.Tables Proofs.PTree Proofs.PRead.

(* ok_tree: sibling names pairwise distinct and distinct from the datasets / bundle their parent writes
   (the latter is the documented format limitation F18). *)

(* the recursive writer stores the whole branch below a node, each child inside its parent's group *)
Theorem C01_writer_stores_whole_branch :
  forall n, ok_tree n -> write_tree n (node_shallow n) = Ok (enc n).
Proof. exact write_tree_enc. Qed.
Print Assumptions C01_writer_stores_whole_branch.

(* a saved tree is: the header and one top-level group holding the encoded tree *)
Theorem C01_saved_file :
  forall c root tr, rcls root = CRoot -> ok_tree root -> tr <> Some false ->
    fresh_file c root [] tr = Ok (G (header c) [(rname root, enc root)]).
Proof. exact fresh_file_whole_tree. Qed.
Print Assumptions C01_saved_file.

(* in the file each node is the HDF5 group at /<root name><node path>, tagged with its class *)
Theorem C01_each_node_is_the_group_at_its_path :
  forall c root p k, rcls root = CRoot -> ok_tree root -> rwalk root p = Some k ->
    exists f, fresh_file c root [] (Some true) = Ok f /\
              lookup f (rname root :: p) = Some (enc k) /\
              oattrs (enc k) = tags (gtype (rcls k)) (pyclass (rcls k)).
Proof. exact file_layout. Qed.
Print Assumptions C01_each_node_is_the_group_at_its_path.

(* no node added, moved or flattened: a node's group links exactly its own datasets/bundle and its children *)
Theorem C01_group_links_are_own_content_and_children :
  forall n, keys (olinks (enc n)) = keys (shallow_links n) ++ map rname (rkids n).
Proof. exact enc_links. Qed.
Print Assumptions C01_group_links_are_own_content_and_children.

(* ---------- reader half.
   canon t = t with, at every node, children sorted by name, metadata sorted by key, and the payload fields a class does
   not have set to 0 (a Node has no data token, only Arrays have a rank).  rd_tree: no node below the top is a Root or
   is called "metadatabundle" (Node.to_h5 refuses that name).  ret_of: read(path) hands back the root, or its only
   child, or its only Metadata. *)
Theorem C01_save_then_read_returns_the_tree :
  forall c root, rcls root = CRoot -> ok_tree root -> rd_tree root -> rname root <> "" -> no_slash (rname root) = true ->
    exists f, fresh_file c root [] (Some true) = Ok f /\
              read (H5 f) None (Some true) = Ok (RTree (canon root) (ret_of (canon root))) /\
              read (H5 f) None None = Ok (RTree (canon root) RetRoot).
Proof. exact save_then_read. Qed.
Print Assumptions C01_save_then_read_returns_the_tree.

(* ... in which every node of the saved tree sits at the same path, and nothing else does *)
Theorem C01_every_node_comes_back_at_its_path :
  forall root, ok_tree root -> forall p, rwalk (canon root) p = option_map canon (rwalk root p).
Proof. exact rwalk_canon. Qed.
Print Assumptions C01_every_node_comes_back_at_its_path.

(* ... as an instance of the same class, under the same name, with the payload its class stores and all its metadata *)
Theorem C01_a_node_read_back_has_its_class_name_payload_and_metadata :
  forall k, rcls (canon k) = rcls k /\ rname (canon k) = rname k /\
            rtok (canon k) = ptok (rcls k) (rtok k) /\ rrank (canon k) = prank (rcls k) (rrank k) /\
            rmds (canon k) = ksort (rmds k) /\ map rname (rkids (canon k)) = map rname (rsort (rkids k)).
Proof. exact canon_fields. Qed.
Print Assumptions C01_a_node_read_back_has_its_class_name_payload_and_metadata.

(* non-vacuity *)
Definition ex_tree : rnode :=
  RN CRoot "r" 0%Z 0 [("m1", 5%Z)] [ RN CArray "a b" 7%Z 2 [] [ RN CPl "p" 8%Z 0 [] [] ]; RN CNode "n" 0%Z 0 [("m", 9%Z)] [] ].
Example C01_reader_hypotheses_satisfiable : rd_tree ex_tree /\ rname ex_tree <> "" /\ no_slash (rname ex_tree) = true /\
  canon ex_tree = RN CRoot "r" 0%Z 0 [("m1", 5%Z)] [ RN CArray "a b" 7%Z 2 [] [ RN CPl "p" 8%Z 0 [] [] ]; RN CNode "n" 0%Z 0 [("m", 9%Z)] [] ].
Proof. split; [cbn; repeat split; discriminate|]. split; [discriminate|]. split; reflexivity. Qed.
Example C01_hypotheses_satisfiable : rcls ex_tree = CRoot /\ ok_tree ex_tree /\ rwalk ex_tree ["a b"; "p"] = Some (RN CPl "p" 8%Z 0 [] []).
Proof.
  split; [reflexivity|]. split; [|reflexivity].
  cbn. repeat split; try (repeat constructor; cbn; intuition discriminate); try (intros k [<-|[<-|[]]]; cbn; intuition discriminate);
    try (intros k [<-|[]]; cbn; intuition discriminate); try (intros k []).
Qed.
