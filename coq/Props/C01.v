(* C01 -- tree round-trip: every node comes back at its path with its class.  Statements only.
   PARTIAL: the writer half is proved (what is in the file, for every tree); the reader half
   (populate / read on the encoded file) is tied by the correspondence check and the oracle only. *)
From Emd Require Import Base.Prelude Model.H5 Model.Emd Generated.Tables Proofs.PTree.

(* ok_tree: sibling names pairwise distinct and distinct from the datasets / bundle their parent writes
   (the latter is the documented format limitation F18). *)

(* the recursive writer stores the whole branch below a node, each child inside its parent's group *)
Theorem C01_writer_stores_whole_branch :
  forall n, ok_tree n -> write_tree n (node_shallow n) = Ok (enc n).
Proof. exact write_tree_enc. Qed.
Print Assumptions C01_writer_stores_whole_branch.

(* a saved tree is: the header and one top-level group holding the encoded tree *)
Theorem C01_saved_file :
  forall c root tr, rcls root = CRoot -> ok_tree root -> tr <> Some false ->
    fresh_file c root [] tr = Ok (G (header c) [(rname root, enc root)]).
Proof. exact fresh_file_whole_tree. Qed.
Print Assumptions C01_saved_file.

(* in the file each node is the HDF5 group at /<root name><node path>, tagged with its class *)
Theorem C01_each_node_is_the_group_at_its_path :
  forall c root p k, rcls root = CRoot -> ok_tree root -> rwalk root p = Some k ->
    exists f, fresh_file c root [] (Some true) = Ok f /\
              lookup f (rname root :: p) = Some (enc k) /\
              oattrs (enc k) = tags (gtype (rcls k)) (pyclass (rcls k)).
Proof. exact file_layout. Qed.
Print Assumptions C01_each_node_is_the_group_at_its_path.

(* no node added, moved or flattened: a node's group links exactly its own datasets/bundle and its children *)
Theorem C01_group_links_are_own_content_and_children :
  forall n, keys (olinks (enc n)) = keys (shallow_links n) ++ map rname (rkids n).
Proof. exact enc_links. Qed.
Print Assumptions C01_group_links_are_own_content_and_children.

(* non-vacuity *)
Definition ex_tree : rnode :=
  RN CRoot "r" 0%Z 0 [("m1", 5%Z)] [ RN CArray "a b" 7%Z 2 [] [ RN CPl "p" 8%Z 0 [] [] ]; RN CNode "n" 0%Z 0 [("m", 9%Z)] [] ].
Example C01_hypotheses_satisfiable : rcls ex_tree = CRoot /\ ok_tree ex_tree /\ rwalk ex_tree ["a b"; "p"] = Some (RN CPl "p" 8%Z 0 [] []).
Proof.
  split; [reflexivity|]. split; [|reflexivity].
  cbn. repeat split; try (repeat constructor; cbn; intuition discriminate); try (intros k [<-|[<-|[]]]; cbn; intuition discriminate);
    try (intros k [<-|[]]; cbn; intuition discriminate); try (intros k []).
Qed.
