(* C09 -- append is a name-based union; append-over additionally replaces common nodes.  Statements only.
   PARTIAL: proved are (1) append mode only extends the file tree -- every node already in the file is unchanged,
   at any depth, for every runtime tree; (2) a runtime child the file lacks is written as a whole new branch at its
   runtime path; (3) the replace step of append-over: the node's own content (tags, metadata, datasets) becomes the
   runtime node's, the data children that exist only in the file are kept below it, siblings untouched, no scratch
   group.  The composition of these steps over the whole dispatcher of write.py (which branch applies to which
   target / emdpath) and root metadata are tied by correspondence + the reference-model oracle. *)
From Emd Require Import Base.Prelude Model.H5 Model.Emd Proofs.PTree Proofs.PFault Proofs.PAppend.

Theorem C09_append_leaves_existing_nodes_unchanged :
  forall n g g', append_branch false n g = Ok g' -> ext g g'.
Proof. exact append_only_extends. Qed.
Print Assumptions C09_append_leaves_existing_nodes_unchanged.

Theorem C09_ext_means_still_there_with_same_content :
  forall g g', ext g g' -> forall p o, lookup g p = Some o ->
    exists o', lookup g' p = Some o' /\ oattrs o' = oattrs o /\
      forall k d, get (olinks o) k = Some d -> is_group d = false -> get (olinks o') k = Some d.
Proof.
  intros g g' H p o Hl. destruct (ext_lookup _ _ H p o Hl) as (o' & Hl' & He). exists o'. split; [exact Hl'|]. apply ext_same_own. exact He.
Qed.
Print Assumptions C09_ext_means_still_there_with_same_content.

Theorem C09_missing_node_written_with_whole_branch :
  forall k a l, ok_tree k -> ~ In (rname k) (keys l) ->
    (do g1 <- write_single_node k (G a l); in_child (rname k) (write_tree k) g1) = Ok (G a (l ++ [(rname k, enc k)])).
Proof. exact new_child_written_whole. Qed.
Print Assumptions C09_missing_node_written_with_whole_branch.

Theorem C09_appendover_replaces_content_keeps_file_only_children :
  forall n a l old p', NoDup (keys l) ->
    get l (rname n) = Some old -> get l (tmpname (rname n)) = None ->
    NoDup (keys (filter (fun kv => is_data_group (snd kv)) (ksort (olinks old)))) ->
    (forall k, In k (keys (filter (fun kv => is_data_group (snd kv)) (ksort (olinks old)))) -> ~ In k (keys (shallow_links n))) ->
    overwrite_in_parent n (G a l) = Ok p' ->
    get (olinks p') (rname n) = Some (G (node_tags n) (shallow_links n ++ filter (fun kv => is_data_group (snd kv)) (ksort (olinks old))))
    /\ get (olinks p') (tmpname (rname n)) = None
    /\ oattrs p' = a
    /\ forall k, k <> rname n -> k <> tmpname (rname n) -> get (olinks p') k = get l k.
Proof. exact overwrite_spec. Qed.
Print Assumptions C09_appendover_replaces_content_keeps_file_only_children.

(* non-vacuity: file r/a/{x}, runtime a' (new token) with new child b: append-over keeps x, replaces a, adds b *)
Example C09_hypotheses_satisfiable :
  let old := G (tags "array" "Array") [("data", D [("units", AStr "")] [3] 1%Z); ("x", G (tags "node" "Node") [])] in
  let l := [("a", old)] in
  let n := RN CArray "a" 2%Z 1 [] [RN CNode "b" 0%Z 0 [] []] in
  NoDup (keys l) /\ get l "a" = Some old /\ get l (tmpname "a") = None /\
  exists g', append_branch true (RN CRoot "r" 0%Z 0 [] [n]) (G [] l) = Ok g' /\
             lookup g' ["a"; "x"] = Some (G (tags "node" "Node") []) /\
             lookup g' ["a"; "b"] = Some (enc (RN CNode "b" 0%Z 0 [] [])) /\
             lookup g' ["a"; "data"] = Some (D [("units", AStr "")] [3] 2%Z).
Proof.
  cbv zeta. split; [repeat constructor; cbn; intuition discriminate|]. split; [reflexivity|]. split; [reflexivity|].
  eexists. split; [vm_compute; reflexivity|]. repeat split; vm_compute; reflexivity.
Qed.
