(* C09 -- append is a name-based union; append-over additionally replaces common nodes.  Statements only.
   Proved: (0) UNION: appending a runtime tree to the encoding of a file tree gives the encoding of their name-based
   union (merge), for all trees at all depths; and save(path, root, mode = any append mode) onto a file holding the tree m
   leaves a file holding exactly union_root m root -- header untouched, root metadata united (file entries win), every
   file node with its own content, common nodes merged recursively, new nodes added with their whole branch;
   (1) append mode only extends the file tree -- every node already in the file is unchanged, at any depth, for every
   runtime tree, also when the append fails half-way; (2) a runtime child the file lacks is written as a whole new
   branch at its runtime path; (3) the replace step of append-over: the node's own content (tags, metadata, datasets)
   becomes the runtime node's, the data children that exist only in the file are kept below it, siblings untouched,
   no scratch group; (4) UNION + REPLACE: append-over of a runtime tree onto the encoding of a file tree, for all trees at all
   depths, leaves the file-only nodes (also below a replaced node), replaces own content and metadata of every node
   present in both, adds the rest -- and save(path, root, mode = any append-over mode) leaves exactly that in the file.
   (5) a foreign tree (root name not in the file) appended under an emdpath: exactly the selection goes under the target
   group and no object off the target's path changes.  (6) a targeted append within one tree -- save(path, root, mode = append, emdpath = "root/a/b") --
   merges the runtime branch at a/b into the file's branch at a/b (the union again) and changes nothing off that path.
   Root metadata follow the same rule per entry name (append: file entries win; append-over: runtime entries replace).
   (7) save(path, node, mode = append) for an inner node: merged at its own path, or written whole when it is one beyond
   the file.  (8) save(path, node, mode = append-over) for an inner node: replaced in its parent's group.  (9) an inner
   node together with an emdpath: naming the node's own place or its parent, the emdpath is redundant (every mode, every
   tree flag); naming a file node below the node, the runtime node found at that place is merged there.  (10) every save whose
   data is moved to an emdpath target inside the same tree (the whole tree at an emdpath; an inner node at an emdpath below
   it) equals the save of the node found there without an emdpath, for every mode and tree flag.  (11) root metadata first: a
   save from a runtime root carrying metadata = the per-entry metadata merge on the file root, then the same save from a
   metadata-free root (every target, mode, flag, emdpath inside the tree) -- which lifts (6)-(10), stated for roots
   without metadata, to all roots when the file root has metadata.  Remaining outside the theorems (correspondence +
   reference-model oracle): a file root without metadata receiving some (the bundle is then appended after the children:
   same content, different link order), emdpath targets holding a link named like the moved node. *)
From Emd Require Import Base.Prelude Model.H5 Model.Emd Model.Reader Generated.Tables Proofs.PTree Proofs.PFault Proofs.PAppend Proofs.PRead Proofs.PUnion Proofs.PUnionAO Proofs.PTarget Proofs.PAfter Proofs.PRootMd Proofs.PSubst.

(* merge m n: m's own content; a child of n called like a child of m is merged into it, recursively; the other children
   of n follow m's, each with its whole branch.  compat m n: n's children are distinctly named, are not called like a
   dataset / the bundle of the file node they go under, new ones are writable; recursively for the common ones. *)
Theorem C09_append_is_the_name_based_union :
  forall m n, ok_tree m -> compat m n -> append_branch false n (enc m) = Ok (enc (merge m n)).
Proof. exact append_is_union. Qed.
Print Assumptions C09_append_is_the_name_based_union.

Theorem C09_union_shape :
  forall m n, merge m n = RN (rcls m) (rname m) (rtok m) (rrank m) (rmds m)
                             (map (fun km => match rget (rkids n) (rname km) with Some kn => merge km kn | None => km end) (rkids m)
                              ++ filter (fun kn => negb (mem (rname kn) (map rname (rkids m)))) (rkids n)).
Proof. exact merge_eq. Qed.
Print Assumptions C09_union_shape.

(* the save call: any append mode, tree = True or None, no emdpath, onto the file that holds tree m under the same root
   name.  union_root m root = merge (m with root metadata md_union (file's) (runtime's)) root. *)
Theorem C09_append_save_leaves_the_union_in_the_file :
  forall c c0 m root md tr,
    In md appendmode -> tr <> Some false ->
    rcls m = CRoot -> rname root = rname m -> ok_tree m -> compat m root ->
    (rmds m <> [] \/ rmds root = []) -> NoDup (keys (rmds root)) ->
    (forall k, In k (rkids m) -> rname k <> "metadatabundle") ->
    write_node c (H5 (whole_file c0 m)) root [] (WA md tr None) = (Ok tt, H5 (whole_file c0 (union_root m root))).
Proof. exact append_save_is_union. Qed.
Print Assumptions C09_append_save_leaves_the_union_in_the_file.

(* ... and what a reader then sees is that union, node for node (C01's reader theorem on the file the append left) *)
Theorem C09_append_then_read_returns_the_union :
  forall c c0 m root md tr,
    In md appendmode -> tr <> Some false ->
    rcls m = CRoot -> rname root = rname m -> ok_tree m -> compat m root ->
    (rmds m <> [] \/ rmds root = []) -> NoDup (keys (rmds root)) ->
    rd_tree m -> rd_tree root -> rname m <> "" -> no_slash (rname m) = true ->
    exists f, write_node c (H5 (whole_file c0 m)) root [] (WA md tr None) = (Ok tt, H5 f) /\
              read (H5 f) None None = Ok (RTree (canon (union_root m root)) RetRoot).
Proof. exact append_then_read. Qed.
Print Assumptions C09_append_then_read_returns_the_union.

(* ---------- append-over.  aom n ks = the children a file node has after runtime node n went over it: the file-only ones
   stay (first); then each child of n -- a new one as it is (with its whole branch), one that replaces a file child km as
   `replaced k km` = k's own class / payload / metadata, and below it aom k (the children of km, which the replace step
   re-links in name order).  compat_ao: names distinct, no clash with the datasets / bundle of the node they go under or
   with a scratch name, new branches writable. *)
Theorem C09_appendover_is_union_and_replace :
  forall m n, compat_ao n (shallow_links m) (rkids m) ->
    append_branch true n (enc m) = Ok (enc (with_kids m (aom n (rkids m)))).
Proof. exact appendover_on_enc. Qed.
Print Assumptions C09_appendover_is_union_and_replace.

Theorem C09_appendover_shape :
  forall n ks, aom n ks = filter (fun km => negb (mem (rname km) (map rname (rkids n)))) ks ++
                          map (fun k => match rget ks (rname k) with Some km => replaced k km | None => k end) (rkids n).
Proof. exact aom_eq. Qed.
Print Assumptions C09_appendover_shape.

Theorem C09_appendover_save_leaves_union_and_replace_in_the_file :
  forall c c0 m root md tr,
    In md appendovermode -> tr <> Some false ->
    rcls m = CRoot -> rname root = rname m -> rmds root = [] -> compat_ao root (shallow_links m) (rkids m) ->
    write_node c (H5 (whole_file c0 m)) root [] (WA md tr None) = (Ok tt, H5 (whole_file c0 (with_kids m (aom root (rkids m))))).
Proof. exact appendover_save. Qed.
Print Assumptions C09_appendover_save_leaves_union_and_replace_in_the_file.

(* ... with root metadata: md_over mf mr = the file's entries the runtime root does not have, then the runtime root's *)
Theorem C09_appendover_save_with_root_metadata :
  forall c c0 m root md tr,
    In md appendovermode -> tr <> Some false ->
    rcls m = CRoot -> rname root = rname m ->
    rmds m <> [] -> NoDup (keys (rmds m)) -> NoDup (keys (rmds root)) ->
    compat_ao root (shallow_links (with_mds m (md_over (rmds m) (rmds root)))) (rkids m) ->
    write_node c (H5 (whole_file c0 m)) root [] (WA md tr None) = (Ok tt, H5 (whole_file c0 (over_root m root))).
Proof. exact appendover_save_with_root_metadata. Qed.
Print Assumptions C09_appendover_save_with_root_metadata.

(* file r/{a/{x, y/{z}}, b}; runtime r/{a'/{y'/{w}}, c}: a and y replaced (new payload / metadata), x and z kept, w and c added, b kept *)
Example C09_appendover_example :
  let m := RN CRoot "r" 0%Z 0 [] [RN CArray "a" 5%Z 1 [("m", 1%Z)] [RN CNode "x" 0%Z 0 [] []; RN CNode "y" 0%Z 0 [] [RN CPl "z" 3%Z 0 [] []]]; RN CNode "b" 0%Z 0 [] []] in
  let n := RN CRoot "r" 0%Z 0 [] [RN CArray "a" 6%Z 2 [] [RN CNode "y" 0%Z 0 [("k", 9%Z)] [RN CNode "w" 0%Z 0 [] []]]; RN CNode "c" 0%Z 0 [] []] in
  compat_ao n (shallow_links m) (rkids m) /\
  with_kids m (aom n (rkids m)) =
    RN CRoot "r" 0%Z 0 [] [RN CNode "b" 0%Z 0 [] [];
                           RN CArray "a" 6%Z 2 [] [RN CNode "x" 0%Z 0 [] []; RN CNode "y" 0%Z 0 [("k", 9%Z)] [RN CPl "z" 3%Z 0 [] []; RN CNode "w" 0%Z 0 [] []]];
                           RN CNode "c" 0%Z 0 [] []].
Proof. cbv zeta. split; [apply compat_aob_sound; vm_compute; reflexivity|vm_compute; reflexivity]. Qed.

(* ---------- a foreign tree under an emdpath.  h = the group path the emdpath resolves to (emd_target), G ga gl = the
   group there; is_pref a b = a is a prefix of b: an object whose path neither lies on the way to h nor below h is
   untouched. *)
Theorem C09_foreign_node_with_its_branch_goes_under_the_emdpath_target :
  forall root tp data a m f ep rn treepath h ga gl,
    mem (rname root) (rootgroups f) = false -> emdpath a = Some ep -> ep <> "" ->
    parse_emdpath ep = (rn, treepath) -> emd_target f rn treepath = Ok h -> lookup f h = Some (G ga gl) ->
    tp <> [] -> rwalk root tp = Some data -> tree a = Some true -> ok_tree data -> ~ In (rname data) (keys gl) ->
    exists f', append_existing root tp a m f = Ok f' /\
               lookup f' h = Some (G ga (gl ++ [(rname data, enc data)])) /\
               (forall q, is_pref q h = false -> is_pref h q = false -> lookup f' q = lookup f q).
Proof. exact foreign_node_with_branch_under_emdpath. Qed.
Print Assumptions C09_foreign_node_with_its_branch_goes_under_the_emdpath_target.

Theorem C09_foreign_whole_tree_goes_under_the_emdpath_target :
  forall root a m f ep rn treepath h ga gl,
    mem (rname root) (rootgroups f) = false -> emdpath a = Some ep -> ep <> "" ->
    parse_emdpath ep = (rn, treepath) -> emd_target f rn treepath = Ok h -> lookup f h = Some (G ga gl) ->
    tree a <> Some false -> ok_tree root -> (forall k, In k (rkids root) -> ~ In (rname k) (keys gl)) ->
    exists f', append_existing root [] a m f = Ok f' /\
               lookup f' h = Some (G ga (gl ++ enc_kids (rkids root))) /\
               (forall q, is_pref q h = false -> is_pref h q = false -> lookup f' q = lookup f q).
Proof. exact foreign_whole_tree_under_emdpath. Qed.
Print Assumptions C09_foreign_whole_tree_goes_under_the_emdpath_target.

(* a targeted append of the whole runtime tree at an inner path p of the file tree it shares *)
Theorem C09_targeted_append_merges_the_branch_at_the_emdpath :
  forall c0 m root p km kn md tr,
    In md appendmode -> tr <> Some false ->
    rcls m = CRoot -> rname root = rname m -> rmds root = [] -> ok_tree m ->
    rwalk m p = Some km -> rwalk root p = Some kn -> compat km kn ->
    Forall (fun s => s <> "" /\ no_slash s = true) (rname m :: p) ->
    exists f', append_existing root [] (WA md tr (Some (join_slash (rname m :: p)))) md (whole_file c0 m) = Ok f' /\
               lookup f' (rname m :: p) = Some (enc (merge km kn)) /\
               (forall q, is_pref q (rname m :: p) = false -> is_pref (rname m :: p) q = false -> lookup f' q = lookup (whole_file c0 m) q).
Proof. exact targeted_append_within_a_tree. Qed.
Print Assumptions C09_targeted_append_merges_the_branch_at_the_emdpath.

(* save(path, node, mode = append) for an inner node whose path the file has: its branch is merged into the file at the
   node's own path; for a node one beyond the file (its parent is there, the node is not): written whole under the parent *)
Theorem C09_inner_node_append_merges_at_its_own_path :
  forall c0 m root tp km data md tr,
    In md appendmode -> tr <> Some false ->
    rcls m = CRoot -> rname root = rname m -> rmds root = [] -> ok_tree m ->
    tp <> [] -> rwalk m tp = Some km -> rwalk root tp = Some data -> compat km data ->
    exists f', append_existing root tp (WA md tr None) md (whole_file c0 m) = Ok f' /\
               lookup f' (rname m :: tp) = Some (enc (merge km data)) /\
               (forall q, is_pref q (rname m :: tp) = false -> is_pref (rname m :: tp) q = false -> lookup f' q = lookup (whole_file c0 m) q).
Proof. exact inner_node_append_merges_at_its_own_path. Qed.
Print Assumptions C09_inner_node_append_merges_at_its_own_path.

(* the same save together with an emdpath that names the node's own place or its parent (the two forms the docstring
   describes): the same merge at the node's own path, everything outside that path untouched *)
Theorem C09_inner_node_append_with_an_emdpath_to_itself_or_its_parent :
  forall c0 m root tp km data md tr ep_path,
    In md appendmode -> tr <> Some false ->
    rcls m = CRoot -> rname root = rname m -> rmds root = [] -> ok_tree m ->
    tp <> [] -> rwalk m tp = Some km -> rwalk root tp = Some data -> compat km data ->
    Forall (fun s => s <> "" /\ no_slash s = true) (rname m :: tp) ->
    (ep_path = tp \/ ep_path = removelast tp) ->
    exists f', append_existing root tp (WA md tr (Some (join_slash (rname m :: ep_path)))) md (whole_file c0 m) = Ok f' /\
               lookup f' (rname m :: tp) = Some (enc (merge km data)) /\
               (forall q, is_pref q (rname m :: tp) = false -> is_pref (rname m :: tp) q = false -> lookup f' q = lookup (whole_file c0 m) q).
Proof. exact inner_node_append_with_its_own_or_parent_emdpath. Qed.
Print Assumptions C09_inner_node_append_with_an_emdpath_to_itself_or_its_parent.

(* non-vacuity: file r/{a/{x}, b}; runtime r/{a/{y}}; save(a, emdpath = 'r/a') and save(a, emdpath = 'r') both give r/{a/{x, y}, b} *)
Example C09_inner_node_emdpath_example :
  let m := RN CRoot "r" 0%Z 0 [] [RN CArray "a" 5%Z 1 [] [RN CNode "x" 0%Z 0 [] []]; RN CNode "b" 0%Z 0 [] []] in
  let root := RN CRoot "r" 0%Z 0 [] [RN CArray "a" 6%Z 1 [] [RN CNode "y" 0%Z 0 [] []]] in
  let want := whole_file (CFG "p" "u") (RN CRoot "r" 0%Z 0 [] [RN CArray "a" 5%Z 1 [] [RN CNode "x" 0%Z 0 [] []; RN CNode "y" 0%Z 0 [] []]; RN CNode "b" 0%Z 0 [] []]) in
  ok_tree m /\ Forall (fun s => s <> "" /\ no_slash s = true) ["r"; "a"] /\
  append_existing root ["a"] (WA "a" None (Some "r/a")) "a" (whole_file (CFG "p" "u") m) = Ok want /\
  append_existing root ["a"] (WA "a" None (Some "r")) "a" (whole_file (CFG "p" "u") m) = Ok want.
Proof.
  cbv zeta. split; [apply ok_treeb_sound; reflexivity|]. split; [repeat constructor; discriminate|]. split; vm_compute; reflexivity.
Qed.

(* for every mode and every tree flag, that emdpath is redundant: the save does exactly what it does without it; with the
   theorems for saves without an emdpath this settles append and append-over of an inner node given such an emdpath *)
Theorem C09_inner_node_emdpath_to_itself_or_its_parent_is_redundant :
  forall c0 m root tp km data md tr ep_path,
    rcls m = CRoot -> rname root = rname m -> rmds root = [] -> ok_tree m ->
    tp <> [] -> rwalk m tp = Some km -> rwalk root tp = Some data ->
    Forall (fun s => s <> "" /\ no_slash s = true) (rname m :: tp) ->
    (ep_path = tp \/ ep_path = removelast tp) ->
    append_existing root tp (WA md tr (Some (join_slash (rname m :: ep_path)))) md (whole_file c0 m)
    = append_existing root tp (WA md tr None) md (whole_file c0 m).
Proof. exact inner_node_emdpath_to_itself_or_parent_is_redundant. Qed.
Print Assumptions C09_inner_node_emdpath_to_itself_or_its_parent_is_redundant.

(* an emdpath naming a file node BELOW the inner node (and not holding a link named like the node): the runtime node found
   at that place below the data is merged into the file node there; nothing off that path changes *)
Theorem C09_inner_node_with_an_emdpath_below_it_merges_at_the_target :
  forall c0 m root tp rel km kt data d2 md tr,
    In md appendmode -> tr <> Some false ->
    rcls m = CRoot -> rname root = rname m -> rmds root = [] -> ok_tree m ->
    tp <> [] -> rel <> [] -> rwalk m tp = Some km -> rwalk m (tp ++ rel) = Some kt ->
    rwalk root tp = Some data -> rwalk data rel = Some d2 -> compat kt d2 ->
    get (olinks (enc kt)) (last tp "") = None ->
    Forall (fun s => s <> "" /\ no_slash s = true) (rname m :: tp ++ rel) ->
    exists f', append_existing root tp (WA md tr (Some (join_slash (rname m :: tp ++ rel)))) md (whole_file c0 m) = Ok f' /\
               lookup f' (rname m :: tp ++ rel) = Some (enc (merge kt d2)) /\
               (forall q, is_pref q (rname m :: tp ++ rel) = false -> is_pref (rname m :: tp ++ rel) q = false -> lookup f' q = lookup (whole_file c0 m) q).
Proof. exact inner_node_with_an_emdpath_below_it. Qed.
Print Assumptions C09_inner_node_with_an_emdpath_below_it_merges_at_the_target.

(* non-vacuity: file r/a/b/{x}; runtime r/a/b/{y}; save(a, emdpath = 'r/a/b') gives r/a/b/{x, y} *)
Example C09_emdpath_below_example :
  let m := RN CRoot "r" 0%Z 0 [] [RN CNode "a" 0%Z 0 [] [RN CNode "b" 0%Z 0 [] [RN CNode "x" 0%Z 0 [] []]]] in
  let root := RN CRoot "r" 0%Z 0 [] [RN CNode "a" 0%Z 0 [] [RN CNode "b" 0%Z 0 [] [RN CNode "y" 0%Z 0 [] []]]] in
  let want := whole_file (CFG "p" "u") (RN CRoot "r" 0%Z 0 [] [RN CNode "a" 0%Z 0 [] [RN CNode "b" 0%Z 0 [] [RN CNode "x" 0%Z 0 [] []; RN CNode "y" 0%Z 0 [] []]]]) in
  ok_tree m /\ get (olinks (enc (RN CNode "b" 0%Z 0 [] [RN CNode "x" 0%Z 0 [] []]))) (last ["a"] "") = None /\
  append_existing root ["a"] (WA "a" None (Some "r/a/b")) "a" (whole_file (CFG "p" "u") m) = Ok want.
Proof. cbv zeta. split; [apply ok_treeb_sound; reflexivity|]. split; vm_compute; reflexivity. Qed.

(* ---------- saves whose data is moved to an emdpath target inside the same tree ARE the save of the node found there,
   without an emdpath -- for every mode (append, append-over, every spelling) and every tree flag.  With the theorems for
   saves of an inner node (merged at its own path / replaced in its parent) this settles them. *)
Theorem C09_whole_tree_at_an_emdpath_is_the_save_of_the_node_there :
  forall c0 m root p km d2 md tr,
    rcls m = CRoot -> rname root = rname m -> rmds root = [] -> ok_tree m -> p <> [] ->
    rwalk m p = Some km -> rwalk root p = Some d2 ->
    Forall (fun s => s <> "" /\ no_slash s = true) (rname m :: p) ->
    append_existing root [] (WA md tr (Some (join_slash (rname m :: p)))) md (whole_file c0 m)
    = append_existing root p (WA md tr None) md (whole_file c0 m).
Proof. exact whole_tree_at_an_emdpath_is_the_inner_node_save. Qed.
Print Assumptions C09_whole_tree_at_an_emdpath_is_the_save_of_the_node_there.

Theorem C09_inner_node_at_an_emdpath_below_it_is_the_save_of_the_node_there :
  forall c0 m root tp rel km kt data d2 md tr,
    rcls m = CRoot -> rname root = rname m -> rmds root = [] -> ok_tree m ->
    tp <> [] -> rel <> [] -> rwalk m tp = Some km -> rwalk m (tp ++ rel) = Some kt ->
    rwalk root tp = Some data -> rwalk data rel = Some d2 ->
    get (olinks (enc kt)) (last tp "") = None ->
    Forall (fun s => s <> "" /\ no_slash s = true) (rname m :: tp ++ rel) ->
    append_existing root tp (WA md tr (Some (join_slash (rname m :: tp ++ rel)))) md (whole_file c0 m)
    = append_existing root (tp ++ rel) (WA md tr None) md (whole_file c0 m).
Proof. exact inner_node_at_an_emdpath_below_it_is_the_save_of_the_node_there. Qed.
Print Assumptions C09_inner_node_at_an_emdpath_below_it_is_the_save_of_the_node_there.

(* ---------- root metadata first: a save into an existing tree from a runtime root that carries metadata = the metadata
   merge on the file root (append: file entries win; append-over: runtime entries replace) followed by the same save from a
   metadata-free root; for every target, mode and tree flag, without an emdpath or with one that names a node of the tree.
   This extends every theorem above that assumes `rmds root = []` to all runtime roots (file root with metadata). *)
Theorem C09_root_metadata_first :
  forall c0 m root tp md tr ep,
    rcls m = CRoot -> rname root = rname m -> ok_tree m ->
    rmds m <> [] -> NoDup (keys (rmds m)) -> NoDup (keys (rmds root)) ->
    (match ep with
     | None => True
     | Some e => exists p k, e = join_slash (rname m :: p) /\ rwalk m p = Some k /\ Forall (fun s => s <> "" /\ no_slash s = true) (rname m :: p)
     end) ->
    append_existing root tp (WA md tr ep) md (whole_file c0 m)
    = append_existing (with_mds root []) tp (WA md tr ep) md
        (whole_file c0 (with_mds m (md_of (mem md appendovermode) (rmds m) (rmds root)))).
Proof. exact root_metadata_first. Qed.
Print Assumptions C09_root_metadata_first.

(* ---------- closed form: the file after a targeted append IS the encoding of the file tree with the node at p replaced by
   the union (rsubst p m k' = m with the node at path p replaced by k'); so it reads back as that tree (C01) and is valid (C05) *)
Theorem C09_the_file_after_an_inner_node_append_in_closed_form :
  forall c0 m root p km d2 md tr,
    In md appendmode -> tr <> Some false ->
    rcls m = CRoot -> rname root = rname m -> rmds root = [] -> ok_tree m -> p <> [] ->
    rwalk m p = Some km -> rwalk root p = Some d2 -> compat km d2 ->
    append_existing root p (WA md tr None) md (whole_file c0 m) = Ok (whole_file c0 (rsubst p m (merge km d2))).
Proof. exact inner_node_append_closed_form. Qed.
Print Assumptions C09_the_file_after_an_inner_node_append_in_closed_form.

Theorem C09_the_file_after_a_targeted_append_in_closed_form :
  forall c0 m root p km d2 md tr,
    In md appendmode -> tr <> Some false ->
    rcls m = CRoot -> rname root = rname m -> rmds root = [] -> ok_tree m -> p <> [] ->
    rwalk m p = Some km -> rwalk root p = Some d2 -> compat km d2 ->
    Forall (fun s => s <> "" /\ no_slash s = true) (rname m :: p) ->
    append_existing root [] (WA md tr (Some (join_slash (rname m :: p)))) md (whole_file c0 m) = Ok (whole_file c0 (rsubst p m (merge km d2))).
Proof. exact targeted_append_closed_form. Qed.
Print Assumptions C09_the_file_after_a_targeted_append_in_closed_form.

(* save(path, root, mode = append, emdpath = 'root/p') onto a file holding the tree m, then a read of the file: the tree m
   with the node at p replaced by the union of the file's and the runtime tree's branches there (canon as in C01) *)
Theorem C09_a_read_after_a_targeted_append_returns_the_substituted_union :
  forall c c0 m root p km d2 md tr,
    In md appendmode -> tr <> Some false ->
    rcls m = CRoot -> rname root = rname m -> rmds root = [] -> ok_tree m -> p <> [] ->
    rwalk m p = Some km -> rwalk root p = Some d2 -> compat km d2 ->
    Forall (fun s => s <> "" /\ no_slash s = true) (rname m :: p) ->
    rd_tree m -> rd_tree d2 ->
    let t := rsubst p m (merge km d2) in
    exists f, write_node c (H5 (whole_file c0 m)) root [] (WA md tr (Some (join_slash (rname m :: p)))) = (Ok tt, H5 f) /\
              read (H5 f) None (Some true) = Ok (RTree (canon t) (ret_of (canon t))).
Proof. exact targeted_append_then_read. Qed.
Print Assumptions C09_a_read_after_a_targeted_append_returns_the_substituted_union.

Theorem C09_the_file_after_a_foreign_tree_is_placed_under_an_emdpath_in_closed_form :
  forall c0 m root p kt md tr,
    rcls m = CRoot -> rname root <> rname m -> ok_tree m -> rwalk m p = Some kt -> tr <> Some false -> ok_tree root ->
    (forall k, In k (rkids root) -> ~ In (rname k) (keys (olinks (enc kt)))) ->
    Forall (fun s => s <> "" /\ no_slash s = true) (rname m :: p) ->
    append_existing root [] (WA md tr (Some (join_slash (rname m :: p)))) md (whole_file c0 m)
    = Ok (whole_file c0 (rsubst p m (with_kids kt (rkids kt ++ rkids root)))).
Proof. exact foreign_tree_closed_form. Qed.
Print Assumptions C09_the_file_after_a_foreign_tree_is_placed_under_an_emdpath_in_closed_form.

Theorem C09_the_file_after_an_inner_node_appendover_in_closed_form :
  forall c0 m root q x pk km data md,
    In md appendovermode ->
    rcls m = CRoot -> rname root = rname m -> rmds root = [] -> ok_tree m ->
    rwalk m q = Some pk -> rwalk m (q ++ [x]) = Some km ->
    rwalk root (q ++ [x]) = Some data -> rname data = x ->
    compat_ao (RN CNode "" 0%Z 0 [] [data]) (shallow_links pk) (rkids pk) ->
    append_existing root (q ++ [x]) (WA md (Some true) None) md (whole_file c0 m)
    = Ok (whole_file c0 (rsubst q m (with_kids pk (aom (RN CNode "" 0%Z 0 [] [data]) (rkids pk))))).
Proof. exact inner_node_appendover_closed_form. Qed.
Print Assumptions C09_the_file_after_an_inner_node_appendover_in_closed_form.

Theorem C09_the_file_after_an_appendover_of_the_branch_below_an_inner_node_in_closed_form :
  forall c0 m root p km data md,
    In md appendovermode ->
    rcls m = CRoot -> rname root = rname m -> rmds root = [] -> ok_tree m -> p <> [] ->
    rwalk m p = Some km -> rwalk root p = Some data ->
    compat_ao data (shallow_links km) (rkids km) ->
    append_existing root p (WA md None None) md (whole_file c0 m)
    = Ok (whole_file c0 (rsubst p m (with_kids km (aom data (rkids km))))).
Proof. exact inner_node_appendover_branch_closed_form. Qed.
Print Assumptions C09_the_file_after_an_appendover_of_the_branch_below_an_inner_node_in_closed_form.

Theorem C09_the_file_after_a_foreign_node_is_placed_under_an_emdpath_in_closed_form :
  forall c0 m root tp data p kt md tr,
    rcls m = CRoot -> rname root <> rname m -> ok_tree m -> rwalk m p = Some kt ->
    tp <> [] -> rwalk root tp = Some data -> ok_tree data ->
    (forall k, In k (placed data tr) -> ~ In (rname k) (keys (olinks (enc kt)))) ->
    Forall (fun s => s <> "" /\ no_slash s = true) (rname m :: p) ->
    append_existing root tp (WA md tr (Some (join_slash (rname m :: p)))) md (whole_file c0 m)
    = Ok (whole_file c0 (rsubst p m (with_kids kt (rkids kt ++ placed data tr)))).
Proof. exact foreign_node_closed_form. Qed.
Print Assumptions C09_the_file_after_a_foreign_node_is_placed_under_an_emdpath_in_closed_form.

Theorem C09_the_file_after_an_appendover_of_an_inner_node_alone_in_closed_form :
  forall c0 m root q x pk km data md,
    In md appendovermode ->
    rcls m = CRoot -> rname root = rname m -> rmds root = [] -> ok_tree m ->
    rwalk m q = Some pk -> rwalk m (q ++ [x]) = Some km ->
    rwalk root (q ++ [x]) = Some data -> rname data = x ->
    compat_ao (RN CNode "" 0%Z 0 [] [with_kids data []]) (shallow_links pk) (rkids pk) ->
    append_existing root (q ++ [x]) (WA md (Some false) None) md (whole_file c0 m)
    = Ok (whole_file c0 (rsubst q m (with_kids pk (aom (RN CNode "" 0%Z 0 [] [with_kids data []]) (rkids pk))))).
Proof. exact inner_node_appendover_alone_closed_form. Qed.
Print Assumptions C09_the_file_after_an_appendover_of_an_inner_node_alone_in_closed_form.

Example C09_closed_form_example :
  let m := RN CRoot "r" 0%Z 0 [] [RN CNode "a" 0%Z 0 [] [RN CNode "b" 0%Z 0 [] [RN CNode "x" 0%Z 0 [] []]; RN CNode "s" 0%Z 0 [] []]] in
  let d2 := RN CNode "b" 0%Z 0 [] [RN CNode "y" 0%Z 0 [] []] in
  rsubst ["a"; "b"] m (merge (RN CNode "b" 0%Z 0 [] [RN CNode "x" 0%Z 0 [] []]) d2)
  = RN CRoot "r" 0%Z 0 [] [RN CNode "a" 0%Z 0 [] [RN CNode "b" 0%Z 0 [] [RN CNode "x" 0%Z 0 [] []; RN CNode "y" 0%Z 0 [] []]; RN CNode "s" 0%Z 0 [] []]].
Proof. vm_compute. reflexivity. Qed.

Theorem C09_inner_node_one_beyond_the_file_is_written_whole :
  forall c0 m root q x pk data md,
    In md (appendmode ++ appendovermode) ->
    rcls m = CRoot -> rname root = rname m -> rmds root = [] -> ok_tree m ->
    rwalk m q = Some pk -> get (olinks (enc pk)) x = None ->
    rwalk root (q ++ [x]) = Some data -> rname data = x -> ok_tree data ->
    exists f', append_existing root (q ++ [x]) (WA md (Some true) None) md (whole_file c0 m) = Ok f' /\
               lookup f' (rname m :: q) = Some (G (oattrs (enc pk)) (olinks (enc pk) ++ [(x, enc data)])) /\
               (forall p, is_pref p (rname m :: q) = false -> is_pref (rname m :: q) p = false -> lookup f' p = lookup (whole_file c0 m) p).
Proof. exact inner_node_one_beyond_the_file_is_written_whole. Qed.
Print Assumptions C09_inner_node_one_beyond_the_file_is_written_whole.

(* save(path, node, mode = append-over) for an inner node the file has: in its parent's group the node is replaced (own
   content = the runtime node's, file-only children kept below it, runtime children merged in with replacement) and every
   sibling is untouched; aom (a one-child parent) ks = ks without the node ++ [the replaced node] *)
Theorem C09_inner_node_appendover_replaces_the_node_in_its_parent :
  forall c0 m root q x pk km data md,
    In md appendovermode ->
    rcls m = CRoot -> rname root = rname m -> rmds root = [] -> ok_tree m ->
    rwalk m q = Some pk -> rwalk m (q ++ [x]) = Some km ->
    rwalk root (q ++ [x]) = Some data -> rname data = x ->
    compat_ao (RN CNode "" 0%Z 0 [] [data]) (shallow_links pk) (rkids pk) ->
    exists f', append_existing root (q ++ [x]) (WA md (Some true) None) md (whole_file c0 m) = Ok f' /\
               lookup f' (rname m :: q) = Some (G (node_tags pk) (shallow_links pk ++ enc_kids (aom (RN CNode "" 0%Z 0 [] [data]) (rkids pk)))) /\
               (forall p, is_pref p (rname m :: q) = false -> is_pref (rname m :: q) p = false -> lookup f' p = lookup (whole_file c0 m) p).
Proof. exact inner_node_appendover. Qed.
Print Assumptions C09_inner_node_appendover_replaces_the_node_in_its_parent.

Theorem C09_append_leaves_existing_nodes_unchanged :
  forall n g g', append_branch false n g = Ok g' -> ext g g'.
Proof. exact append_only_extends. Qed.
Print Assumptions C09_append_leaves_existing_nodes_unchanged.

Theorem C09_ext_means_still_there_with_same_content :
  forall g g', ext g g' -> forall p o, lookup g p = Some o ->
    exists o', lookup g' p = Some o' /\ oattrs o' = oattrs o /\
      forall k d, get (olinks o) k = Some d -> is_group d = false -> get (olinks o') k = Some d.
Proof.
  intros g g' H p o Hl. destruct (ext_lookup _ _ H p o Hl) as (o' & Hl' & He). exists o'. split; [exact Hl'|]. apply ext_same_own. exact He.
Qed.
Print Assumptions C09_ext_means_still_there_with_same_content.

Theorem C09_missing_node_written_with_whole_branch :
  forall k a l, ok_tree k -> ~ In (rname k) (keys l) ->
    (do g1 <- write_single_node k (G a l); in_child (rname k) (write_tree k) g1) = Ok (G a (l ++ [(rname k, enc k)])).
Proof. exact new_child_written_whole. Qed.
Print Assumptions C09_missing_node_written_with_whole_branch.

Theorem C09_appendover_replaces_content_keeps_file_only_children :
  forall n a l old p', NoDup (keys l) ->
    get l (rname n) = Some old -> get l (tmpname (rname n)) = None ->
    NoDup (keys (filter (fun kv => is_data_group (snd kv)) (ksort (olinks old)))) ->
    (forall k, In k (keys (filter (fun kv => is_data_group (snd kv)) (ksort (olinks old)))) -> ~ In k (keys (shallow_links n))) ->
    overwrite_in_parent n (G a l) = Ok p' ->
    get (olinks p') (rname n) = Some (G (node_tags n) (shallow_links n ++ filter (fun kv => is_data_group (snd kv)) (ksort (olinks old))))
    /\ get (olinks p') (tmpname (rname n)) = None
    /\ oattrs p' = a
    /\ forall k, k <> rname n -> k <> tmpname (rname n) -> get (olinks p') k = get l k.
Proof. exact overwrite_spec. Qed.
Print Assumptions C09_appendover_replaces_content_keeps_file_only_children.

(* non-vacuity of the union theorems: file tree r/{a/{x}, b}; runtime tree r/{a/{y}, c/{z}}: union r/{a/{x, y}, b, c/{z}} *)
Example C09_union_example :
  let m := RN CRoot "r" 0%Z 0 [("m1", 1%Z)] [RN CArray "a" 5%Z 1 [] [RN CNode "x" 0%Z 0 [] []]; RN CNode "b" 0%Z 0 [] []] in
  let n := RN CRoot "r" 0%Z 0 [("m1", 9%Z); ("m2", 2%Z)] [RN CArray "a" 6%Z 1 [] [RN CNode "y" 0%Z 0 [] []]; RN CNode "c" 0%Z 0 [] [RN CPl "z" 3%Z 0 [] []]] in
  ok_tree m /\ compat m n /\
  union_root m n = RN CRoot "r" 0%Z 0 [("m1", 1%Z); ("m2", 2%Z)]
                     [RN CArray "a" 5%Z 1 [] [RN CNode "x" 0%Z 0 [] []; RN CNode "y" 0%Z 0 [] []]; RN CNode "b" 0%Z 0 [] [];
                      RN CNode "c" 0%Z 0 [] [RN CPl "z" 3%Z 0 [] []]].
Proof. cbv zeta. split; [apply ok_treeb_sound; reflexivity|]. split; [apply compatb_sound; reflexivity|reflexivity]. Qed.

(* non-vacuity: file r/a/{x}, runtime a' (new token) with new child b: append-over keeps x, replaces a, adds b *)
Example C09_hypotheses_satisfiable :
  let old := G (tags "array" "Array") [("data", D [("units", AStr "")] [3] 1%Z); ("x", G (tags "node" "Node") [])] in
  let l := [("a", old)] in
  let n := RN CArray "a" 2%Z 1 [] [RN CNode "b" 0%Z 0 [] []] in
  NoDup (keys l) /\ get l "a" = Some old /\ get l (tmpname "a") = None /\
  exists g', append_branch true (RN CRoot "r" 0%Z 0 [] [n]) (G [] l) = Ok g' /\
             lookup g' ["a"; "x"] = Some (G (tags "node" "Node") []) /\
             lookup g' ["a"; "b"] = Some (enc (RN CNode "b" 0%Z 0 [] [])) /\
             lookup g' ["a"; "data"] = Some (D [("units", AStr "")] [3] 2%Z).
Proof.
  cbv zeta. split; [repeat constructor; cbn; intuition discriminate|]. split; [reflexivity|]. split; [reflexivity|].
  eexists. split; [vm_compute; reflexivity|]. repeat split; vm_compute; reflexivity.
Qed.
