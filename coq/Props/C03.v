(* C03 -- Metadata round-trip: every supported value kind, at any nesting depth.  Statements only. *)
From Coq Require Import ZArith List PrimFloat.
From Emd Require Import Base.Prelude Model.Md Generated.Tables Proofs.P03.

(* doc v : v is built from the documented kinds -- None, str (no NUL), bool/int/float/complex, arrays of an
   HDF5-able dtype, tuples (empty / numbers / flat tuples of numbers / arrays / strings), lists (empty / numbers /
   arrays / strings), dicts of these with distinct valid keys, to ANY depth.  Forced hypotheses (known findings):
   the string is not the literal "_None" (F10); in a sequence mixing ints with floats every int is exactly
   representable in binary64 (F19).
   mequiv : bool stays bool, int int, float float (bit-exact: nan, +-inf, -0.0), complex, str, None; arrays keep dtype,
   shape, content; tuples stay tuples and lists lists, with elements equal to the original converted losslessly to
   the sequence's common numeric kind; dicts keep their keys and, recursively, their values. *)
Theorem C03_documented_values_round_trip :
  forall v, doc v = true -> exists it, save_item v = Ok it /\ exists v', read_item it = Ok v' /\ mequiv v v' = true.
Proof. exact md_roundtrip. Qed.
Print Assumptions C03_documented_values_round_trip.

(* every 'type' tag the writer stamps is dispatched by the reader -- over the lists GENERATED from the sources *)
Theorem C03_every_written_tag_is_read : forallb (fun t => mem t md_tags_read) md_tags_written = true.
Proof. exact tags_paired. Qed.
Print Assumptions C03_every_written_tag_is_read.
Theorem C03_model_uses_exactly_the_source_tags :
  forallb (fun t => mem t md_tags_written) model_tags = true /\ forallb (fun t => mem t model_tags) md_tags_written = true.
Proof. exact model_tags_are_the_written_ones. Qed.
Print Assumptions C03_model_uses_exactly_the_source_tags.

(* the forced hypotheses are needed: witnesses *)
Theorem C03_refuted_None_sentinel :
  exists it v', save_item (MStr "_None") = Ok it /\ read_item it = Ok v' /\ mequiv (MStr "_None") v' = false.
Proof. eexists. eexists. split; [reflexivity|]. split; [reflexivity|reflexivity]. Qed.
Print Assumptions C03_refuted_None_sentinel.
Theorem C03_refuted_bigint_mixed :
  exists it v', save_item (MTuple [MSc (SI 9007199254740993); MSc (SF 0x1p-1%float)]) = Ok it /\ read_item it = Ok v'
               /\ mequiv (MTuple [MSc (SI 9007199254740993); MSc (SF 0x1p-1%float)]) v' = false.
Proof. eexists. eexists. split; [vm_compute; reflexivity|]. split; [vm_compute; reflexivity|vm_compute; reflexivity]. Qed.
Print Assumptions C03_refuted_bigint_mixed.

(* non-vacuity: a nested documented value *)
Example C03_hypotheses_satisfiable :
  doc (MDict [("a", MDict [("b", MTuple [MTuple [MSc (SI 1); MSc (SF 0x1p-1%float)]; MTuple []])]); ("s", MList [MStr "x"; MStr ""]);
              ("n", MNone); ("z", MSc (SC PrimFloat.nan 0%float)); ("arr", MTuple [MArr "float32" [2; 0] 0])]) = true.
Proof. vm_compute. reflexivity. Qed.
