(* C08 -- partial read returns exactly the selected part and never modifies the file.  Statements only.
   Proved: (1) over the open-mode table GENERATED from the sources every h5py.File( call on the read path uses the
   literal 'r'; (2) for every saved tree and every inner node, the result of read(path, emdpath, tree) for each of the
   three tree options, as a closed term: the root with its metadata and -- nothing else than -- the node alone / the node
   with its whole branch / the branch below the node attached at root level, and this is what the full read holds at
   that path; (3) compositionality of the tree reader on arbitrary files; (4) a path not in the file is an error -- step-wise on arbitrary
   groups, and for read() on a saved tree (a component that names no node, the root's name left out) --, a leading slash is ignored.  sha256 of the file before/after every read: oracle.  Byte immutability under mode 'r' is
   HDF5's (trusted). *)
From Emd Require Import Base.Prelude Model.H5 Model.Emd Model.Reader Generated.Tables Proofs.PTree Proofs.P08 Proofs.PRead Proofs.PMissing.

Theorem C08_read_path_opens_read_only :
  Forall (fun m => m = "r") read_path_open_modes /\ read_path_open_modes <> [].
Proof. exact read_path_readonly. Qed.
Print Assumptions C08_read_path_opens_read_only.

Theorem C08_full_read_holds_what_partial_reads_return :
  forall a l ks k c n sub,
    populate (G a l) = Ok ks -> In (k, c) l -> is_data_group c = true ->
    read_single_node k c = Ok n -> populate c = Ok sub -> In (with_kids n sub) ks.
Proof. exact populate_member. Qed.
Print Assumptions C08_full_read_holds_what_partial_reads_return.

(* the three partial reads of an inner node k at path p of a saved tree (canon / canon_shallow / rd_tree: see C01).
   RTree t ret: t is the tree built under the returned root, ret which object read() hands back. *)
Theorem C08_partial_reads_of_a_saved_tree :
  forall c root p k,
    rcls root = CRoot -> ok_tree root -> rd_tree root -> p <> [] -> rwalk root p = Some k ->
    Forall (fun s => s <> "" /\ no_slash s = true) (rname root :: p) ->
    let ep := Some (join_slash (rname root :: p)) in
    let rt := canon_shallow root in
    read (H5 (whole_file c root)) ep (Some false) = Ok (RTree (with_kids rt [canon_shallow k]) (RetNode [rname k])) /\
    read (H5 (whole_file c root)) ep (Some true) = Ok (RTree (with_kids rt [canon k]) (RetNode [rname k])) /\
    read (H5 (whole_file c root)) ep None = Ok (RTree (with_kids rt (rsort (map canon (rkids k)))) RetRoot).
Proof. exact read_inner_node. Qed.
Print Assumptions C08_partial_reads_of_a_saved_tree.

(* ... and that node-with-branch is what the full read holds at the same path *)
Theorem C08_partial_read_is_the_full_reads_subtree :
  forall c root p k, rcls root = CRoot -> ok_tree root -> rd_tree root -> rname root <> "" -> no_slash (rname root) = true ->
    rwalk root p = Some k ->
    exists full ret, read (H5 (whole_file c root)) None (Some true) = Ok (RTree full ret) /\ rwalk full p = Some (canon k).
Proof.
  intros c root p k Hc Hok Hrd Hne Hns Hw. destruct (read_whole_file c root Hc Hrd Hne Hns) as (A & _).
  exists (canon root), (ret_of (canon root)). split; [exact A|]. rewrite (rwalk_canon root Hok p), Hw. reflexivity.
Qed.
Print Assumptions C08_partial_read_is_the_full_reads_subtree.

Example C08_hypotheses_satisfiable :
  let t := RN CRoot "r" 0%Z 0 [("m1", 5%Z)] [ RN CArray "a b" 7%Z 2 [] [ RN CPl "p" 8%Z 0 [] [] ]; RN CNode "n" 0%Z 0 [] [] ] in
  rd_tree t /\ rwalk t ["a b"; "p"] = Some (RN CPl "p" 8%Z 0 [] []) /\ Forall (fun s => s <> "" /\ no_slash s = true) ["r"; "a b"; "p"].
Proof. cbn. split; [repeat split; discriminate|]. split; [reflexivity|]. repeat constructor; discriminate. Qed.

(* a path whose next component is not a link of the current group is reported as an error *)
Theorem C08_missing_path_is_an_error :
  forall a l k q, get l k = None -> exists e, walk_groups (G a l) (k :: q) = Err e.
Proof. intros a l k q H. cbn. rewrite H. eauto. Qed.
Print Assumptions C08_missing_path_is_an_error.

(* ... at the level of read() on a saved tree: a path that leaves the tree at some component (no node of that name where it
   stands, and no dataset / bundle of the node it would hang under), or that does not start with the root's name -- e.g. an
   existing path with the root's name left out -- is refused, whatever the tree option *)
Theorem C08_a_path_that_leaves_the_saved_tree_is_refused :
  forall c root pre x q k tr,
    rcls root = CRoot -> ok_tree root -> rwalk root pre = Some k ->
    rget (rkids k) x = None -> ~ In x (keys (shallow_links k)) ->
    Forall (fun s => s <> "" /\ no_slash s = true) (rname root :: pre ++ x :: q) ->
    read (H5 (whole_file c root)) (Some (join_slash (rname root :: pre ++ x :: q))) tr = Err EAssert.
Proof. exact read_missing_node. Qed.
Print Assumptions C08_a_path_that_leaves_the_saved_tree_is_refused.

Theorem C08_a_path_that_does_not_start_with_the_root_name_is_refused :
  forall c root rp names tr,
    rcls root = CRoot -> rp <> rname root ->
    Forall (fun s => s <> "" /\ no_slash s = true) (rp :: names) ->
    read (H5 (whole_file c root)) (Some (join_slash (rp :: names))) tr = Err EAssert.
Proof. exact read_missing_root. Qed.
Print Assumptions C08_a_path_that_does_not_start_with_the_root_name_is_refused.

(* a leading '/' is ignored *)
Theorem C08_leading_slash_ignored :
  forall s, remove_first_empty (split_slash ("/" +++ s)) = split_slash s.
Proof. intros s. unfold split_slash. cbn. reflexivity. Qed.
Print Assumptions C08_leading_slash_ignored.
