(* C08 -- partial read returns exactly the selected part and never modifies the file.  Statements only.
   Proved: (1) over the open-mode table GENERATED from the sources every h5py.File( call on the read path uses the
   literal 'r'; (2) for every saved tree and every inner node, the result of read(path, emdpath, tree) for each of the
   three tree options, as a closed term: the root with its metadata and -- nothing else than -- the node alone / the node
   with its whole branch / the branch below the node attached at root level, and this is what the full read holds at
   that path; (3) compositionality of the tree reader on arbitrary files; (4) a path not in the file is an error, a
   leading slash is ignored.  sha256 of the file before/after every read: oracle.  Byte immutability under mode 'r' is
   HDF5's (trusted). *)
From Emd Require Import Base.Prelude Model.H5 Model.Emd Model.Reader Generated.Tables Proofs.PTree Proofs.P08 Proofs.PRead.

Theorem C08_read_path_opens_read_only :
  Forall (fun m => m = "r") read_path_open_modes /\ read_path_open_modes <> [].
Proof. exact read_path_readonly. Qed.
Print Assumptions C08_read_path_opens_read_only.

Theorem C08_full_read_holds_what_partial_reads_return :
  forall a l ks k c n sub,
    populate (G a l) = Ok ks -> In (k, c) l -> is_data_group c = true ->
    read_single_node k c = Ok n -> populate c = Ok sub -> In (with_kids n sub) ks.
Proof. exact populate_member. Qed.
Print Assumptions C08_full_read_holds_what_partial_reads_return.

(* the three partial reads of an inner node k at path p of a saved tree (canon / canon_shallow / rd_tree: see C01).
   RTree t ret: t is the tree built under the returned root, ret which object read() hands back. *)
Theorem C08_partial_reads_of_a_saved_tree :
  forall c root p k,
    rcls root = CRoot -> ok_tree root -> rd_tree root -> p <> [] -> rwalk root p = Some k ->
    Forall (fun s => s <> "" /\ no_slash s = true) (rname root :: p) ->
    let ep := Some (join_slash (rname root :: p)) in
    let rt := canon_shallow root in
    read (H5 (whole_file c root)) ep (Some false) = Ok (RTree (with_kids rt [canon_shallow k]) (RetNode [rname k])) /\
    read (H5 (whole_file c root)) ep (Some true) = Ok (RTree (with_kids rt [canon k]) (RetNode [rname k])) /\
    read (H5 (whole_file c root)) ep None = Ok (RTree (with_kids rt (rsort (map canon (rkids k)))) RetRoot).
Proof. exact read_inner_node. Qed.
Print Assumptions C08_partial_reads_of_a_saved_tree.

(* ... and that node-with-branch is what the full read holds at the same path *)
Theorem C08_partial_read_is_the_full_reads_subtree :
  forall c root p k, rcls root = CRoot -> ok_tree root -> rd_tree root -> rname root <> "" -> no_slash (rname root) = true ->
    rwalk root p = Some k ->
    exists full ret, read (H5 (whole_file c root)) None (Some true) = Ok (RTree full ret) /\ rwalk full p = Some (canon k).
Proof.
  intros c root p k Hc Hok Hrd Hne Hns Hw. destruct (read_whole_file c root Hc Hrd Hne Hns) as (A & _).
  exists (canon root), (ret_of (canon root)). split; [exact A|]. rewrite (rwalk_canon root Hok p), Hw. reflexivity.
Qed.
Print Assumptions C08_partial_read_is_the_full_reads_subtree.

Example C08_hypotheses_satisfiable :
  let t := RN CRoot "r" 0%Z 0 [("m1", 5%Z)] [ RN CArray "a b" 7%Z 2 [] [ RN CPl "p" 8%Z 0 [] [] ]; RN CNode "n" 0%Z 0 [] [] ] in
  rd_tree t /\ rwalk t ["a b"; "p"] = Some (RN CPl "p" 8%Z 0 [] []) /\ Forall (fun s => s <> "" /\ no_slash s = true) ["r"; "a b"; "p"].
Proof. cbn. split; [repeat split; discriminate|]. split; [reflexivity|]. repeat constructor; discriminate. Qed.

(* a path whose next component is not a link of the current group is reported as an error *)
Theorem C08_missing_path_is_an_error :
  forall a l k q, get l k = None -> exists e, walk_groups (G a l) (k :: q) = Err e.
Proof. intros a l k q H. cbn. rewrite H. eauto. Qed.
Print Assumptions C08_missing_path_is_an_error.

(* a leading '/' is ignored *)
Theorem C08_leading_slash_ignored :
  forall s, remove_first_empty (split_slash ("/" +++ s)) = split_slash s.
Proof. intros s. unfold split_slash. cbn. reflexivity. Qed.
Print Assumptions C08_leading_slash_ignored.
