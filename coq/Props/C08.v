(* C08 -- partial read returns exactly the selected part and never modifies the file.  Statements only.
   PARTIAL: proved are (1) over the open-mode table GENERATED from the sources: every h5py.File( call on the
   read path uses the literal 'r'; (2) compositionality of the tree reader: what a full read holds below a node for
   each tagged child is exactly what reading that child alone (tree=False) plus its branch returns; (3) a read is
   a function of the file only, and a path that is not in the file is an error.  Selection per tree option on real
   files, sha256 before/after every read: correspondence + oracle.  Byte immutability under mode 'r' is HDF5's. *)
From Emd Require Import Base.Prelude Model.H5 Model.Emd Model.Reader Generated.Tables Proofs.P08.

Theorem C08_read_path_opens_read_only :
  Forall (fun m => m = "r") read_path_open_modes /\ read_path_open_modes <> [].
Proof. exact read_path_readonly. Qed.
Print Assumptions C08_read_path_opens_read_only.

Theorem C08_full_read_holds_what_partial_reads_return :
  forall a l ks k c n sub,
    populate (G a l) = Ok ks -> In (k, c) l -> is_data_group c = true ->
    read_single_node k c = Ok n -> populate c = Ok sub -> In (with_kids n sub) ks.
Proof. exact populate_member. Qed.
Print Assumptions C08_full_read_holds_what_partial_reads_return.

(* a path whose next component is not a link of the current group is reported as an error *)
Theorem C08_missing_path_is_an_error :
  forall a l k q, get l k = None -> exists e, walk_groups (G a l) (k :: q) = Err e.
Proof. intros a l k q H. cbn. rewrite H. eauto. Qed.
Print Assumptions C08_missing_path_is_an_error.

(* a leading '/' is ignored *)
Theorem C08_leading_slash_ignored :
  forall s, remove_first_empty (split_slash ("/" +++ s)) = split_slash s.
Proof. intros s. unfold split_slash. cbn. reflexivity. Qed.
Print Assumptions C08_leading_slash_ignored.
