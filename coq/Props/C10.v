(* C10 -- several trees in one file stay separate and individually readable.  Statements only.
   Proved: a save (append / append-over, any spelling) of a tree whose root name the file lacks adds exactly that tree
   after the others; any sequence of such saves leaves header + one top-level tree per root, in order; each tree is read
   back by its root name as saved (canon, see C01), whatever else the file holds; a read without a path reports exactly
   the root names; the frame property (adding or modifying one tree never changes any other tree, nor the header and
   UUID); a list / tuple of roots, unrooted nodes, arrays and dicts saved into a fresh file is stored as documented:
   the roots given whole, everything unrooted under one shared root; a list of rooted nodes (direct children of one root):
   each stored alone -- without its children -- under a fresh copy of that root carrying the root's metadata.  a list mixing
   all of these (roots, unrooted nodes, arrays, dicts, rooted nodes of several roots): the trees above plus one fresh copy
   per root with rooted items, each rooted item then added, alone, as the last child of the tree named like its root; the same list
   appended to a file that already holds other trees leaves those first and unchanged;
   an append / append-over into one tree of several replaces that tree, in place, by the union / union + replace;
   any history of such saves (new trees, appends, append-overs in any order) by induction over the history;
   locality: what a save does to the tree it is aimed at, and whether it succeeds, is a function of that tree alone --
   the other trees of the file never influence it. *)
From Coq Require Import Permutation.
From Emd Require Import Base.Prelude Model.H5 Model.Emd Model.Reader Generated.Tables Proofs.PTree Proofs.PFrame Proofs.PRead Proofs.PMulti Proofs.PLocal Proofs.PMixed Proofs.PUnion Proofs.PUnionAO Proofs.PAfter.
From Emd Require Import Model.EmdList.

(* target_root: the tree a save is aimed at = the root's name, or the tree named by emdpath for a foreign root.
   `only X f f'` : header attributes equal, every top-level link other than X equal. *)
Theorem C10_append_touches_only_the_targeted_tree :
  forall root tp a m f f', append_existing root tp a m f = Ok f' -> only (target_root root a f) f f'.
Proof. exact append_existing_frame. Qed.
Print Assumptions C10_append_touches_only_the_targeted_tree.

Theorem C10_other_trees_and_header_untouched :
  forall c f root tp a m f' r',
    run_prelude prelude_order (mode a) (emdpath a) true = Ok m ->
    mem m overwritemode = false -> mem m writemode = false ->
    write_node c (H5 f) root tp a = (Ok tt, H5 f') ->
    r' <> target_root root a f ->
    lookup f' [r'] = lookup f [r'] /\ oattrs f' = oattrs f.
Proof. exact other_trees_and_header_untouched. Qed.
Print Assumptions C10_other_trees_and_header_untouched.

Theorem C10_new_root_adds_one_tree :
  forall root tp tr f f', write_from_root root tp tr f = Ok f' ->
    exists c, get (olinks f') (rname root) = Some c /\ get (olinks f) (rname root) = None.
Proof. exact new_tree_adds_one_link. Qed.
Print Assumptions C10_new_root_adds_one_tree.

Theorem C10_multi_root_read_reports_names :
  forall f tr r1 r2 rest, rootgroups f = r1 :: r2 :: rest -> read_emd f None tr = Ok (RNames (rootgroups f)).
Proof. exact read_multi_root. Qed.
Print Assumptions C10_multi_root_read_reports_names.

(* ---------- files holding several trees.  forest_file c ts = header + one top-level group per tree of ts, in order *)
Theorem C10_saving_a_tree_under_a_new_root_name_adds_exactly_that_tree :
  forall c c0 ts root md tr,
    In md (appendmode ++ appendovermode) -> tr <> Some false ->
    ts <> [] -> Forall (fun t => rcls t = CRoot) ts -> rcls root = CRoot -> ok_tree root -> ~ In (rname root) (map rname ts) ->
    write_node c (H5 (forest_file c0 ts)) root [] (WA md tr None) = (Ok tt, H5 (forest_file c0 (ts ++ [root]))).
Proof. exact save_new_tree. Qed.
Print Assumptions C10_saving_a_tree_under_a_new_root_name_adds_exactly_that_tree.

Theorem C10_any_sequence_of_such_saves_leaves_one_tree_per_root :
  forall c c0 more ts,
    ts <> [] -> Forall (fun t => rcls t = CRoot) (ts ++ more) -> Forall ok_tree more -> NoDup (map rname (ts ++ more)) ->
    forall mds, length mds = length more -> Forall (fun md => In (fst md) (appendmode ++ appendovermode) /\ snd md <> Some false) mds ->
    fold_left (fun s tm => snd (write_node c s (fst tm) [] (WA (fst (snd tm)) (snd (snd tm)) None))) (combine more mds) (H5 (forest_file c0 ts))
    = H5 (forest_file c0 (ts ++ more)).
Proof. exact successive_saves. Qed.
Print Assumptions C10_any_sequence_of_such_saves_leaves_one_tree_per_root.

Theorem C10_each_tree_is_read_by_its_root_name_as_saved :
  forall c ts t,
    NoDup (map rname ts) -> In t ts -> Forall (fun x => rcls x = CRoot) ts ->
    rd_tree t -> rname t <> "" -> no_slash (rname t) = true ->
    read (H5 (forest_file c ts)) (Some (rname t)) (Some true) = Ok (RTree (canon t) (ret_of (canon t))) /\
    read (H5 (forest_file c ts)) (Some (rname t)) None = Ok (RTree (canon t) RetRoot) /\
    read (H5 (forest_file c ts)) (Some (rname t)) (Some false) = Ok (RTree (canon_shallow t) RetRoot).
Proof. exact read_tree_by_name. Qed.
Print Assumptions C10_each_tree_is_read_by_its_root_name_as_saved.

Theorem C10_read_without_a_path_reports_exactly_the_root_names :
  forall c ts tr t1 t2 rest, ts = t1 :: t2 :: rest -> Forall (fun x => rcls x = CRoot) ts ->
    exists names, read (H5 (forest_file c ts)) None tr = Ok (RNames names) /\ Permutation names (map rname ts).
Proof. exact read_reports_root_names. Qed.
Print Assumptions C10_read_without_a_path_reports_exactly_the_root_names.

(* ---------- list / tuple arguments without rooted items, into a fresh file, any mode.
   list_given = the Root items, in list order.  list_saved = [] if there is nothing else, otherwise the single root
   "root_savedlist" whose children are the unrooted nodes (list order; a later one of the same name replaces the earlier)
   followed by the arrays as Arrays named array_<i> (the next free index), and whose metadata are the dicts as
   dictionary_<j>.  The file then holds exactly these trees: the shared root first, then the given roots.  (A list naming
   the same unrooted node twice is refused before anything is touched.) *)
Theorem C10_a_list_of_roots_and_unrooted_items_is_stored_as_documented :
  forall c tops items md tr,
    no_rooted_items items -> nodup_nat (list_unrooted_idx tops items) = true -> In md allmodes ->
    let trees := list_saved tops items ++ list_given tops items in
    trees <> [] -> Forall (fun t => rcls t = CRoot) trees -> Forall ok_tree trees -> NoDup (map rname trees) ->
    write_list c Absent tops items (WA md tr None) = (Ok tt, H5 (forest_file c trees)).
Proof. exact list_save_into_a_fresh_file. Qed.
Print Assumptions C10_a_list_of_roots_and_unrooted_items_is_stored_as_documented.

(* list items that are rooted nodes: xs = names of direct children of the root r = tops[i].  The file holds one tree: a root
   named like r with r's metadata, whose children are the selected nodes alone (with_kids d [] = the node without children) *)
Theorem C10_rooted_list_items_are_stored_alone_under_a_copy_of_their_root :
  forall c tops i xs md tr,
    let r := nth i tops dummy in
    rcls r = CRoot -> rname r <> "" -> no_slash (rname r) = true -> NoDup (keys (rmds r)) ->
    xs <> [] -> NoDup xs -> ~ In "metadatabundle" xs ->
    (forall x, In x xs -> exists data, rwalk r [x] = Some data /\ rname data = x) ->
    In md allmodes ->
    write_list c Absent tops (rooted_list i xs) (WA md tr None)
    = (Ok tt, H5 (forest_file c [RN CRoot (rname r) 0%Z 0 (rmds r)
                                   (map (fun x => match rwalk r [x] with Some d => with_kids d [] | None => dummy end) xs)])).
Proof. exact list_of_rooted_items. Qed.
Print Assumptions C10_rooted_list_items_are_stored_alone_under_a_copy_of_their_root.

(* ---------- modifying one tree of a file of several (the other half of "adding or modifying one tree never changes any
   other tree"): the targeted tree becomes the union (append) / union + replace (append-over) of its old content and the
   runtime tree, in place; the trees before and after it, their order and the header are the same *)
Theorem C10_an_append_into_one_tree_of_several_changes_that_tree_alone :
  forall c c0 pre T post root md tr,
    In md appendmode -> tr <> Some false ->
    rname root = rname T -> ok_tree T -> compat T root ->
    (rmds T <> [] \/ rmds root = []) -> NoDup (keys (rmds root)) ->
    (forall k, In k (rkids T) -> rname k <> "metadatabundle") ->
    ~ In (rname T) (map rname pre) -> Forall (fun t => rcls t = CRoot) (pre ++ T :: post) ->
    write_node c (H5 (forest_file c0 (pre ++ T :: post))) root [] (WA md tr None)
    = (Ok tt, H5 (forest_file c0 (pre ++ union_root T root :: post))).
Proof. exact append_into_a_tree_of_a_forest. Qed.
Print Assumptions C10_an_append_into_one_tree_of_several_changes_that_tree_alone.

Theorem C10_an_appendover_into_one_tree_of_several_changes_that_tree_alone :
  forall c c0 pre T post root md tr,
    In md appendovermode -> tr <> Some false ->
    rname root = rname T -> rmds root = [] -> compat_ao root (shallow_links T) (rkids T) ->
    ~ In (rname T) (map rname pre) -> Forall (fun t => rcls t = CRoot) (pre ++ T :: post) ->
    write_node c (H5 (forest_file c0 (pre ++ T :: post))) root [] (WA md tr None)
    = (Ok tt, H5 (forest_file c0 (pre ++ with_kids T (aom root (rkids T)) :: post))).
Proof. exact appendover_into_a_tree_of_a_forest. Qed.
Print Assumptions C10_an_appendover_into_one_tree_of_several_changes_that_tree_alone.

(* ---------- any history: new trees, appends and append-overs of whole trees in any order and interleaving.  happly = what
   each step does to the list of trees (new: added last; append: the tree of that name becomes the union; append-over:
   union + replace); hgood = each step meets, on the file as it is at that point, the hypotheses of its one-step theorem *)
Theorem C10_any_history_of_whole_tree_saves :
  forall c c0 steps ts,
    ts <> [] -> Forall (fun t => rcls t = CRoot) ts -> NoDup (map rname ts) -> hgood ts steps ->
    fold_left (fun s st => snd (write_node c s (hroot st) [] (WA (hmode st) (htree st) None))) steps (H5 (forest_file c0 ts))
    = H5 (forest_file c0 (fold_left happly steps ts)).
Proof. exact any_history_of_whole_tree_saves. Qed.
Print Assumptions C10_any_history_of_whole_tree_saves.

(* ... and after any such history every tree of the file is read back by its root name as the tree the history computes *)
Theorem C10_after_any_history_each_tree_is_read_back_by_its_root_name :
  forall c c0 steps ts t,
    ts <> [] -> Forall (fun t => rcls t = CRoot) ts -> NoDup (map rname ts) -> hgood ts steps ->
    Forall rd_tree ts -> Forall (fun st => rd_tree (hroot st)) steps ->
    In t (fold_left happly steps ts) -> rname t <> "" -> no_slash (rname t) = true ->
    exists f, fold_left (fun s st => snd (write_node c s (hroot st) [] (WA (hmode st) (htree st) None))) steps (H5 (forest_file c0 ts)) = H5 f /\
              read (H5 f) (Some (rname t)) (Some true) = Ok (RTree (canon t) (ret_of (canon t))).
Proof. exact history_then_read. Qed.
Print Assumptions C10_after_any_history_each_tree_is_read_back_by_its_root_name.

Theorem C10_after_any_history_a_read_without_a_path_reports_exactly_the_root_names :
  forall c c0 steps ts tr,
    ts <> [] -> Forall (fun t => rcls t = CRoot) ts -> NoDup (map rname ts) -> hgood ts steps ->
    2 <= length (fold_left happly steps ts) ->
    exists f names, fold_left (fun s st => snd (write_node c s (hroot st) [] (WA (hmode st) (htree st) None))) steps (H5 (forest_file c0 ts)) = H5 f /\
                    read (H5 f) None tr = Ok (RNames names) /\ Permutation names (map rname (fold_left happly steps ts)).
Proof. exact history_then_read_names. Qed.
Print Assumptions C10_after_any_history_a_read_without_a_path_reports_exactly_the_root_names.

(* a list of roots and unrooted items saved (append / append-over) into a file that may already hold some of the listed
   roots: the listed trees are handled one after the other, each a new tree, an append or an append-over according to what
   the file holds when its turn comes (steps = that classification, one step per listed tree, in list order) *)
Theorem C10_a_list_of_trees_appended_to_a_file_that_may_hold_some_of_them :
  forall c tops items md tr ts steps,
    In md (appendmode ++ appendovermode) -> no_rooted_items items -> nodup_nat (list_unrooted_idx tops items) = true ->
    map hroot steps = list_saved tops items ++ list_given tops items ->
    Forall (fun st => hmode st = md /\ htree st = Some true) steps ->
    ts <> [] -> Forall (fun t => rcls t = CRoot) ts -> NoDup (map rname ts) -> hgood ts steps ->
    write_list c (H5 (forest_file c ts)) tops items (WA md tr None) = (Ok tt, H5 (forest_file c (fold_left happly steps ts))).
Proof. exact list_of_trees_into_an_existing_file. Qed.
Print Assumptions C10_a_list_of_trees_appended_to_a_file_that_may_hold_some_of_them.

(* non-vacuity: file [r1/{a}]; then a new tree r2/{k}; then r1/{a/{y}, b} appended; then r2/{k'} appended over *)
Example C10_history_example :
  let r1 := RN CRoot "r1" 0%Z 0 [] [RN CNode "a" 0%Z 0 [] []] in
  let r2 := RN CRoot "r2" 0%Z 0 [] [RN CArray "k" 5%Z 1 [] []] in
  let r1b := RN CRoot "r1" 0%Z 0 [] [RN CNode "a" 0%Z 0 [] [RN CNode "y" 0%Z 0 [] []]; RN CNode "b" 0%Z 0 [] []] in
  let r2b := RN CRoot "r2" 0%Z 0 [] [RN CArray "k" 6%Z 1 [] []] in
  let steps := [HNew r2 "a" None; HApp r1b "append" (Some true); HAo r2b "ao" None] in
  hgood [r1] steps /\
  fold_left happly steps [r1] = [RN CRoot "r1" 0%Z 0 [] [RN CNode "a" 0%Z 0 [] [RN CNode "y" 0%Z 0 [] []]; RN CNode "b" 0%Z 0 [] []];
                                 RN CRoot "r2" 0%Z 0 [] [RN CArray "k" 6%Z 1 [] []]].
Proof.
  cbv zeta. split; [|vm_compute; reflexivity].
  cbn [hgood]. split; [|split; [|split; [|exact I]]].
  - split; [discriminate|]. split; [vm_compute; tauto|]. split; [reflexivity|]. split; [apply ok_treeb_sound; reflexivity|]. cbn. intuition discriminate.
  - split; [discriminate|]. split; [vm_compute; tauto|]. eexists. split; [left; reflexivity|]. split; [reflexivity|].
    split; [apply ok_treeb_sound; reflexivity|]. split; [apply compatb_sound; reflexivity|]. split; [right; reflexivity|]. split; [constructor|].
    intros k [<-|[]]. discriminate.
  - split; [discriminate|]. split; [vm_compute; tauto|]. eexists. split; [right; left; reflexivity|]. split; [reflexivity|]. split; [reflexivity|].
    apply compat_aob_sound. reflexivity.
Qed.

(* ---------- locality: for a root name k the file has, an append / append-over (any tree flag, with or without an emdpath)
   into a file holding the tree t under k among any other links l succeeds exactly when the same save into the file holding
   t alone does, and leaves there the same new tree t' -- the other trees are neither read nor written *)
Theorem C10_a_save_into_one_tree_depends_on_that_tree_alone :
  forall hdr l k t root tp a m,
    rname root = k -> mem k (rootgroups (G hdr [(k, t)])) = true -> mem k (rootgroups (G hdr (set l k t))) = true ->
    append_existing root tp a m (G hdr (set l k t))
    = match append_existing root tp a m (G hdr [(k, t)]) with
      | Ok s' => match get (olinks s') k with Some t' => Ok (G hdr (set l k t')) | None => Err EOther end
      | Err e => Err e
      end.
Proof. exact append_depends_on_its_tree_alone. Qed.
Print Assumptions C10_a_save_into_one_tree_depends_on_that_tree_alone.

(* ---------- any mixed list into a fresh file.  list_rooted = the rooted items (index of their root, path below it);
   list_copies = one childless copy, carrying the root's metadata, per root that has rooted items (order of first
   appearance); add_item = the item's node, without its children, appended as the last child of the tree named like its
   root.  list_conflict = two different roots of one name have rooted items (refused). *)
Theorem C10_a_mixed_list_is_stored_as_documented :
  forall c tops items md tr,
    nodup_nat (list_unrooted_idx tops items) = true -> list_conflict tops items = false -> In md allmodes ->
    let base := (list_saved tops items ++ list_given tops items) ++ list_copies tops items in
    base <> [] -> Forall (fun t => rcls t = CRoot) base -> Forall ok_tree base -> NoDup (map rname base) ->
    Forall (fun it => let r := nth (fst it) tops dummy in
              rcls r = CRoot /\ rname r <> "" /\ no_slash (rname r) = true /\ NoDup (keys (rmds r)) /\
              exists x data, snd it = [x] /\ rwalk r [x] = Some data /\ rname data = x /\ x <> "metadatabundle") (list_rooted items) ->
    NoDup (map (fun it => (rname (nth (fst it) tops dummy), snd it)) (list_rooted items)) ->
    write_list c Absent tops items (WA md tr None) = (Ok tt, H5 (forest_file c (fold_left (add_item tops) (list_rooted items) base))).
Proof. exact mixed_list_into_a_fresh_file. Qed.
Print Assumptions C10_a_mixed_list_is_stored_as_documented.

(* ... and into a file that already holds other trees ts (append / append-over, any spelling): the trees already there stay
   first and unchanged, the list's trees follow *)
Theorem C10_a_mixed_list_appended_to_a_file_of_other_trees :
  forall c tops items md tr ts,
    In md (appendmode ++ appendovermode) -> ts <> [] -> Forall (fun t => rcls t = CRoot) ts ->
    nodup_nat (list_unrooted_idx tops items) = true -> list_conflict tops items = false ->
    let base := (list_saved tops items ++ list_given tops items) ++ list_copies tops items in
    Forall (fun t => rcls t = CRoot) base -> Forall ok_tree base -> NoDup (map rname (ts ++ base)) ->
    Forall (fun it => let r := nth (fst it) tops dummy in
              rcls r = CRoot /\ rname r <> "" /\ no_slash (rname r) = true /\ NoDup (keys (rmds r)) /\
              exists x data, snd it = [x] /\ rwalk r [x] = Some data /\ rname data = x /\ x <> "metadatabundle") (list_rooted items) ->
    NoDup (map (fun it => (rname (nth (fst it) tops dummy), snd it)) (list_rooted items)) ->
    write_list c (H5 (forest_file c ts)) tops items (WA md tr None)
    = (Ok tt, H5 (forest_file c (fold_left (add_item tops) (list_rooted items) (ts ++ base)))).
Proof. exact mixed_list_into_an_existing_file. Qed.
Print Assumptions C10_a_mixed_list_appended_to_a_file_of_other_trees.

(* non-vacuity: [r1.a, Root r2, r3.p, ndarray, r1.b, unrooted u] *)
Example C10_mixed_list_example :
  let tops := [RN CRoot "r1" 0%Z 0 [("m", 1%Z)] [RN CNode "a" 0%Z 0 [] [RN CNode "deep" 0%Z 0 [] []]; RN CArray "b" 7%Z 1 [] []];
               RN CRoot "r2" 0%Z 0 [] [RN CNode "k" 0%Z 0 [] []];
               RN CRoot "r3" 0%Z 0 [] [RN CPl "p" 3%Z 0 [] []];
               RN CNode "u" 0%Z 0 [] []] in
  let items := [LTop 0 ["a"]; LTop 1 []; LTop 2 ["p"]; LArr 9%Z 2; LTop 0 ["b"]; LTop 3 []] in
  let c := CFG "emdfile" "" in
  let want := [RN CRoot "root_savedlist" 0%Z 0 [] [RN CNode "u" 0%Z 0 [] []; RN CArray "array_0" 9%Z 2 [] []];
               RN CRoot "r2" 0%Z 0 [] [RN CNode "k" 0%Z 0 [] []];
               RN CRoot "r1" 0%Z 0 [("m", 1%Z)] [RN CNode "a" 0%Z 0 [] []; RN CArray "b" 7%Z 1 [] []];
               RN CRoot "r3" 0%Z 0 [] [RN CPl "p" 3%Z 0 [] []]] in
  nodup_nat (list_unrooted_idx tops items) = true /\ list_conflict tops items = false /\
  fold_left (add_item tops) (list_rooted items) ((list_saved tops items ++ list_given tops items) ++ list_copies tops items) = want /\
  write_list c Absent tops items (WA "w" None None) = (Ok tt, H5 (forest_file c want)).
Proof. cbv zeta. repeat split; vm_compute; reflexivity. Qed.

Example C10_list_example :
  let tops := [RN CRoot "r1" 0%Z 0 [] [RN CNode "a" 0%Z 0 [] []]; RN CArray "u" 7%Z 1 [] []; RN CRoot "r2" 0%Z 0 [("m", 1%Z)] []; RN CNode "u" 0%Z 0 [] []] in
  let items := [LTop 0 []; LTop 1 []; LArr 9%Z 2; LDict 4%Z; LTop 2 []; LTop 3 []; LArr 8%Z 1] in
  no_rooted_items items /\ nodup_nat (list_unrooted_idx tops items) = true /\
  list_saved tops items ++ list_given tops items =
    [RN CRoot "root_savedlist" 0%Z 0 [("dictionary_0", 4%Z)] [RN CNode "u" 0%Z 0 [] []; RN CArray "array_0" 9%Z 2 [] []; RN CArray "array_1" 8%Z 1 [] []];
     RN CRoot "r1" 0%Z 0 [] [RN CNode "a" 0%Z 0 [] []]; RN CRoot "r2" 0%Z 0 [("m", 1%Z)] []].
Proof. cbv zeta. split; [repeat constructor|]. split; vm_compute; reflexivity. Qed.

(* non-vacuity: appending a second tree to a one-tree file *)
Example C10_hypotheses_satisfiable :
  let c := CFG "emdfile" "" in
  let r1 := RN CRoot "r1" 0%Z 0 [] [RN CNode "a" 0%Z 0 [] []] in
  let r2 := RN CRoot "r2" 0%Z 0 [] [RN CNode "b" 0%Z 0 [] []] in
  exists f f', fresh_file c r1 [] (Some true) = Ok f /\ write_node c (H5 f) r2 [] (WA "a" (Some true) None) = (Ok tt, H5 f')
               /\ run_prelude prelude_order "a" None true = Ok "a" /\ rootgroups f' = ["r1"; "r2"].
Proof. cbv zeta. eexists. eexists. split; [vm_compute; reflexivity|]. split; [vm_compute; reflexivity|]. split; vm_compute; reflexivity. Qed.
