(* C10 -- several trees in one file stay separate and individually readable.  Statements only.
   PARTIAL: proved are the frame property (adding or modifying one tree never changes any other tree, nor the
   header and UUID), that a new root name adds exactly one top-level tree, and the multi-root read; that each
   tree equals its source and the list/tuple storage rules are tied by correspondence + oracle. *)
From Emd Require Import Base.Prelude Model.H5 Model.Emd Model.Reader Generated.Tables Proofs.PFrame.

(* target_root: the tree a save is aimed at = the root's name, or the tree named by emdpath for a foreign root.
   `only X f f'` : header attributes equal, every top-level link other than X equal. *)
Theorem C10_append_touches_only_the_targeted_tree :
  forall root tp a m f f', append_existing root tp a m f = Ok f' -> only (target_root root a f) f f'.
Proof. exact append_existing_frame. Qed.
Print Assumptions C10_append_touches_only_the_targeted_tree.

Theorem C10_other_trees_and_header_untouched :
  forall c f root tp a m f' r',
    run_prelude prelude_order (mode a) (emdpath a) true = Ok m ->
    mem m overwritemode = false -> mem m writemode = false ->
    write_node c (H5 f) root tp a = (Ok tt, H5 f') ->
    r' <> target_root root a f ->
    lookup f' [r'] = lookup f [r'] /\ oattrs f' = oattrs f.
Proof. exact other_trees_and_header_untouched. Qed.
Print Assumptions C10_other_trees_and_header_untouched.

Theorem C10_new_root_adds_one_tree :
  forall root tp tr f f', write_from_root root tp tr f = Ok f' ->
    exists c, get (olinks f') (rname root) = Some c /\ get (olinks f) (rname root) = None.
Proof. exact new_tree_adds_one_link. Qed.
Print Assumptions C10_new_root_adds_one_tree.

Theorem C10_multi_root_read_reports_names :
  forall f tr r1 r2 rest, rootgroups f = r1 :: r2 :: rest -> read_emd f None tr = Ok (RNames (rootgroups f)).
Proof. exact read_multi_root. Qed.
Print Assumptions C10_multi_root_read_reports_names.

(* non-vacuity: appending a second tree to a one-tree file *)
Example C10_hypotheses_satisfiable :
  let c := CFG "emdfile" "" in
  let r1 := RN CRoot "r1" 0%Z 0 [] [RN CNode "a" 0%Z 0 [] []] in
  let r2 := RN CRoot "r2" 0%Z 0 [] [RN CNode "b" 0%Z 0 [] []] in
  exists f f', fresh_file c r1 [] (Some true) = Ok f /\ write_node c (H5 f) r2 [] (WA "a" (Some true) None) = (Ok tt, H5 f')
               /\ run_prelude prelude_order "a" None true = Ok "a" /\ rootgroups f' = ["r1"; "r2"].
Proof. cbv zeta. eexists. eexists. split; [vm_compute; reflexivity|]. split; [vm_compute; reflexivity|]. split; vm_compute; reflexivity. Qed.
