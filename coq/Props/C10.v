(* C10 -- several trees in one file stay separate and individually readable.  Statements only.
   Proved: a save (append / append-over, any spelling) of a tree whose root name the file lacks adds exactly that tree
   after the others; any sequence of such saves leaves header + one top-level tree per root, in order; each tree is read
   back by its root name as saved (canon, see C01), whatever else the file holds; a read without a path reports exactly
   the root names; the frame property (adding or modifying one tree never changes any other tree, nor the header and
   UUID); a list / tuple of roots, unrooted nodes, arrays and dicts saved into a fresh file is stored as documented:
   the roots given whole, everything unrooted under one shared root; a list of rooted nodes (direct children of one root):
   each stored alone -- without its children -- under a fresh copy of that root carrying the root's metadata.  PARTIAL:
   lists mixing rooted nodes of several roots with other items are tied by correspondence + oracle. *)
From Coq Require Import Permutation.
From Emd Require Import Base.Prelude Model.H5 Model.Emd Model.Reader Generated.Tables Proofs.PTree Proofs.PFrame Proofs.PRead Proofs.PMulti.
From Emd Require Import Model.EmdList.

(* target_root: the tree a save is aimed at = the root's name, or the tree named by emdpath for a foreign root.
   `only X f f'` : header attributes equal, every top-level link other than X equal. *)
Theorem C10_append_touches_only_the_targeted_tree :
  forall root tp a m f f', append_existing root tp a m f = Ok f' -> only (target_root root a f) f f'.
Proof. exact append_existing_frame. Qed.
Print Assumptions C10_append_touches_only_the_targeted_tree.

Theorem C10_other_trees_and_header_untouched :
  forall c f root tp a m f' r',
    run_prelude prelude_order (mode a) (emdpath a) true = Ok m ->
    mem m overwritemode = false -> mem m writemode = false ->
    write_node c (H5 f) root tp a = (Ok tt, H5 f') ->
    r' <> target_root root a f ->
    lookup f' [r'] = lookup f [r'] /\ oattrs f' = oattrs f.
Proof. exact other_trees_and_header_untouched. Qed.
Print Assumptions C10_other_trees_and_header_untouched.

Theorem C10_new_root_adds_one_tree :
  forall root tp tr f f', write_from_root root tp tr f = Ok f' ->
    exists c, get (olinks f') (rname root) = Some c /\ get (olinks f) (rname root) = None.
Proof. exact new_tree_adds_one_link. Qed.
Print Assumptions C10_new_root_adds_one_tree.

Theorem C10_multi_root_read_reports_names :
  forall f tr r1 r2 rest, rootgroups f = r1 :: r2 :: rest -> read_emd f None tr = Ok (RNames (rootgroups f)).
Proof. exact read_multi_root. Qed.
Print Assumptions C10_multi_root_read_reports_names.

(* ---------- files holding several trees.  forest_file c ts = header + one top-level group per tree of ts, in order *)
Theorem C10_saving_a_tree_under_a_new_root_name_adds_exactly_that_tree :
  forall c c0 ts root md tr,
    In md (appendmode ++ appendovermode) -> tr <> Some false ->
    ts <> [] -> Forall (fun t => rcls t = CRoot) ts -> rcls root = CRoot -> ok_tree root -> ~ In (rname root) (map rname ts) ->
    write_node c (H5 (forest_file c0 ts)) root [] (WA md tr None) = (Ok tt, H5 (forest_file c0 (ts ++ [root]))).
Proof. exact save_new_tree. Qed.
Print Assumptions C10_saving_a_tree_under_a_new_root_name_adds_exactly_that_tree.

Theorem C10_any_sequence_of_such_saves_leaves_one_tree_per_root :
  forall c c0 more ts,
    ts <> [] -> Forall (fun t => rcls t = CRoot) (ts ++ more) -> Forall ok_tree more -> NoDup (map rname (ts ++ more)) ->
    forall mds, length mds = length more -> Forall (fun md => In (fst md) (appendmode ++ appendovermode) /\ snd md <> Some false) mds ->
    fold_left (fun s tm => snd (write_node c s (fst tm) [] (WA (fst (snd tm)) (snd (snd tm)) None))) (combine more mds) (H5 (forest_file c0 ts))
    = H5 (forest_file c0 (ts ++ more)).
Proof. exact successive_saves. Qed.
Print Assumptions C10_any_sequence_of_such_saves_leaves_one_tree_per_root.

Theorem C10_each_tree_is_read_by_its_root_name_as_saved :
  forall c ts t,
    NoDup (map rname ts) -> In t ts -> Forall (fun x => rcls x = CRoot) ts ->
    rd_tree t -> rname t <> "" -> no_slash (rname t) = true ->
    read (H5 (forest_file c ts)) (Some (rname t)) (Some true) = Ok (RTree (canon t) (ret_of (canon t))) /\
    read (H5 (forest_file c ts)) (Some (rname t)) None = Ok (RTree (canon t) RetRoot) /\
    read (H5 (forest_file c ts)) (Some (rname t)) (Some false) = Ok (RTree (canon_shallow t) RetRoot).
Proof. exact read_tree_by_name. Qed.
Print Assumptions C10_each_tree_is_read_by_its_root_name_as_saved.

Theorem C10_read_without_a_path_reports_exactly_the_root_names :
  forall c ts tr t1 t2 rest, ts = t1 :: t2 :: rest -> Forall (fun x => rcls x = CRoot) ts ->
    exists names, read (H5 (forest_file c ts)) None tr = Ok (RNames names) /\ Permutation names (map rname ts).
Proof. exact read_reports_root_names. Qed.
Print Assumptions C10_read_without_a_path_reports_exactly_the_root_names.

(* ---------- list / tuple arguments without rooted items, into a fresh file, any mode.
   list_given = the Root items, in list order.  list_saved = [] if there is nothing else, otherwise the single root
   "root_savedlist" whose children are the unrooted nodes (list order; a later one of the same name replaces the earlier)
   followed by the arrays as Arrays named array_<i> (the next free index), and whose metadata are the dicts as
   dictionary_<j>.  The file then holds exactly these trees: the shared root first, then the given roots.  (A list naming
   the same unrooted node twice is refused before anything is touched.) *)
Theorem C10_a_list_of_roots_and_unrooted_items_is_stored_as_documented :
  forall c tops items md tr,
    no_rooted_items items -> nodup_nat (list_unrooted_idx tops items) = true -> In md allmodes ->
    let trees := list_saved tops items ++ list_given tops items in
    trees <> [] -> Forall (fun t => rcls t = CRoot) trees -> Forall ok_tree trees -> NoDup (map rname trees) ->
    write_list c Absent tops items (WA md tr None) = (Ok tt, H5 (forest_file c trees)).
Proof. exact list_save_into_a_fresh_file. Qed.
Print Assumptions C10_a_list_of_roots_and_unrooted_items_is_stored_as_documented.

(* list items that are rooted nodes: xs = names of direct children of the root r = tops[i].  The file holds one tree: a root
   named like r with r's metadata, whose children are the selected nodes alone (with_kids d [] = the node without children) *)
Theorem C10_rooted_list_items_are_stored_alone_under_a_copy_of_their_root :
  forall c tops i xs md tr,
    let r := nth i tops dummy in
    rcls r = CRoot -> rname r <> "" -> no_slash (rname r) = true -> NoDup (keys (rmds r)) ->
    xs <> [] -> NoDup xs -> ~ In "metadatabundle" xs ->
    (forall x, In x xs -> exists data, rwalk r [x] = Some data /\ rname data = x) ->
    In md allmodes ->
    write_list c Absent tops (rooted_list i xs) (WA md tr None)
    = (Ok tt, H5 (forest_file c [RN CRoot (rname r) 0%Z 0 (rmds r)
                                   (map (fun x => match rwalk r [x] with Some d => with_kids d [] | None => dummy end) xs)])).
Proof. exact list_of_rooted_items. Qed.
Print Assumptions C10_rooted_list_items_are_stored_alone_under_a_copy_of_their_root.

Example C10_list_example :
  let tops := [RN CRoot "r1" 0%Z 0 [] [RN CNode "a" 0%Z 0 [] []]; RN CArray "u" 7%Z 1 [] []; RN CRoot "r2" 0%Z 0 [("m", 1%Z)] []; RN CNode "u" 0%Z 0 [] []] in
  let items := [LTop 0 []; LTop 1 []; LArr 9%Z 2; LDict 4%Z; LTop 2 []; LTop 3 []; LArr 8%Z 1] in
  no_rooted_items items /\ nodup_nat (list_unrooted_idx tops items) = true /\
  list_saved tops items ++ list_given tops items =
    [RN CRoot "root_savedlist" 0%Z 0 [("dictionary_0", 4%Z)] [RN CNode "u" 0%Z 0 [] []; RN CArray "array_0" 9%Z 2 [] []; RN CArray "array_1" 8%Z 1 [] []];
     RN CRoot "r1" 0%Z 0 [] [RN CNode "a" 0%Z 0 [] []]; RN CRoot "r2" 0%Z 0 [("m", 1%Z)] []].
Proof. cbv zeta. split; [repeat constructor|]. split; vm_compute; reflexivity. Qed.

(* non-vacuity: appending a second tree to a one-tree file *)
Example C10_hypotheses_satisfiable :
  let c := CFG "emdfile" "" in
  let r1 := RN CRoot "r1" 0%Z 0 [] [RN CNode "a" 0%Z 0 [] []] in
  let r2 := RN CRoot "r2" 0%Z 0 [] [RN CNode "b" 0%Z 0 [] []] in
  exists f f', fresh_file c r1 [] (Some true) = Ok f /\ write_node c (H5 f) r2 [] (WA "a" (Some true) None) = (Ok tt, H5 f')
               /\ run_prelude prelude_order "a" None true = Ok "a" /\ rootgroups f' = ["r1"; "r2"].
Proof. cbv zeta. eexists. eexists. split; [vm_compute; reflexivity|]. split; [vm_compute; reflexivity|]. split; vm_compute; reflexivity. Qed.
