(* C20 -- Version comparison is exactly lexicographic ordering.  Statements only. *)
From Coq Require Import ZArith.
From Emd Require Import Base.Prelude Generated.Version Generated.Tables Proofs.P20.
Open Scope Z_scope.

Theorem C20_lexicographic :
  forall c m : Z * Z * Z, truthy (version_is_geq c m) = lex_geq c m.
Proof. exact version_geq_lex. Qed.
Print Assumptions C20_lexicographic.

Theorem C20_lex_geq_is_lexicographic :
  forall a b r x y z, lex_geq (a, b, r) (x, y, z) = true <->
    (a > x \/ (a = x /\ (b > y \/ (b = y /\ r >= z)))).
Proof. exact lex_geq_spec. Qed.
Print Assumptions C20_lex_geq_is_lexicographic.

Theorem C20_written_version :
  exists v, written_version = Some v /\ truthy (version_is_geq v (1, 0, 0)) = true.
Proof. exact written_version_ok. Qed.
Print Assumptions C20_written_version.
