(* C18 -- a save that fails does not damage what the file already held.  Statements only.
   Fault model (Model/Fault.v): a budget of HDF5 mutations that still succeed; the theorems quantify over
   EVERY budget, i.e. every fault point, and over completed as well as failed runs.  Single fault per save;
   a fault during the rollback itself and process crashes are outside the model (DESIGN.md). *)
From Emd Require Import Base.Prelude Model.H5 Model.Emd Model.Fault Proofs.PTree Proofs.PFault.

(* append mode: whatever the fault point, the file group is only EXTENDED: every object that was there is still
   at its path with the same attributes and the same datasets (ext, made explicit by the two lemmas below) *)
Theorem C18_append_mode_only_extends :
  forall n g b g' b' ok, append_branch_b false n g b = (g', b', ok) -> ext g g'.
Proof. exact append_mode_only_extends. Qed.
Print Assumptions C18_append_mode_only_extends.

Theorem C18_extended_means_still_there :
  forall g g', ext g g' -> forall p o, lookup g p = Some o -> exists o', lookup g' p = Some o' /\ ext o o'.
Proof. exact ext_lookup. Qed.
Print Assumptions C18_extended_means_still_there.

Theorem C18_extended_means_same_own_content :
  forall o o', ext o o' -> oattrs o' = oattrs o /\
    forall k d, get (olinks o) k = Some d -> is_group d = false -> get (olinks o') k = Some d.
Proof. exact ext_same_own. Qed.
Print Assumptions C18_extended_means_same_own_content.

(* append-over: a replace step that fails at ANY point (move, writing the new node, any re-link, the final
   delete) leaves the parent group EXACTLY as it was -- in particular no "_tmp_" scratch group *)
Theorem C18_failed_replace_restores_the_parent_group :
  forall n a l b p' b', NoDup (keys l) -> ~ In (tmpname (rname n)) (keys l) ->
    overwrite_b n (G a l) b = (p', b', false) -> p' = G a l.
Proof. exact overwrite_fail_restores. Qed.
Print Assumptions C18_failed_replace_restores_the_parent_group.

Theorem C18_failed_root_metadata_entry_restores_the_bundle :
  forall ao existing kt a l b g' b', NoDup (keys l) -> ~ In (tmpname (fst kt)) (keys l) ->
    md_entry_b ao existing kt (G a l) b = (g', b', false) -> g' = G a l.
Proof. exact md_entry_fail_restores. Qed.
Print Assumptions C18_failed_root_metadata_entry_restores_the_bundle.

(* The STRICT statement also for append-over -- nodes replaced before the failure point hold what they held
   before -- is false: append-over is not transactional (known finding).  Witness: replacing "a" succeeds,
   then the write of the new node "b" fails; "a" holds the new content. *)
Definition C18_strict_ao : Prop :=
  forall n g b g' b', append_branch_b true n g b = (g', b', false) ->
    forall p o, lookup g p = Some o -> exists o', lookup g' p = Some o' /\ oattrs o' = oattrs o
      /\ forall k d, get (olinks o) k = Some d -> is_group d = false -> get (olinks o') k = Some d.
Theorem C18_strict_ao_refuted : ~ C18_strict_ao.
Proof.
  intros H.
  set (g := G [] [("a", G (tags "array" "Array") [("data", D [("units", AStr "")] [3] 1%Z)])]).
  set (n := RN CRoot "r" 0%Z 0 [] [RN CArray "a" 2%Z 1 [] []; RN CNode "b" 0%Z 0 [] []]).
  destruct (append_branch_b true n g (Some 3)) as [[g' b'] ok] eqn:E.
  assert (ok = false) by (vm_compute in E; injection E; auto). subst ok.
  destruct (H n g (Some 3) g' b' E ["a"] (G (tags "array" "Array") [("data", D [("units", AStr "")] [3] 1%Z)]) eq_refl) as (o' & Hl & _ & Hd).
  specialize (Hd "data" (D [("units", AStr "")] [3] 1%Z) eq_refl eq_refl).
  vm_compute in E. injection E as <- _. vm_compute in Hl. injection Hl as <-. vm_compute in Hd. discriminate.
Qed.
Print Assumptions C18_strict_ao_refuted.

(* non-vacuity of the restore theorem: a replace that fails at its last step *)
Example C18_hypotheses_satisfiable :
  let l := [("a", G (tags "array" "Array") [("k", G (tags "node" "Node") [])]); ("z", G (tags "node" "Node") [])] in
  NoDup (keys l) /\ ~ In (tmpname "a") (keys l) /\
  snd (overwrite_b (RN CNode "a" 0%Z 0 [] []) (G [] l) (Some 3)) = false /\
  snd (overwrite_b (RN CNode "a" 0%Z 0 [] []) (G [] l) (Some 4)) = true.
Proof.
  cbv zeta. split; [repeat (constructor; [cbn; intuition discriminate|]); constructor|].
  split; [cbn; intuition discriminate|]. split; vm_compute; reflexivity.
Qed.
