From Emd Require Import Base.Prelude Model.H5 Model.Emd Model.Reader.
