(* C02 -- Array round-trip: calibrations and stack labels (data, dtype, shape, units by observation).  Statements only.
   PARTIAL: emdfile hands the data array to h5py unchanged and takes it back unchanged; that h5py preserves
   dtype / shape / element values for every dtype and memory layout is observed by the correspondence harness
   (600+ arrays over 18 dtypes x 6 layouts), not modelled.  What IS proved, for all ints and all binary64 values:
   the calibration part of the codec (compress linear dim vectors to two entries, re-expand on read). *)
From Coq Require Import ZArith List PrimFloat.
From Emd Require Import Base.Prelude Model.Arr Proofs.P14 Proofs.P02.

(* dimv_equiv d d' : the same vector, or numeric vectors that are equal element by element (numpy ==) *)
Theorem C02_calibrations_round_trip :
  forall a, arr_inv a ->
    (forall d, a_depth a = Some d -> length (a_labels a) = d) -> (a_depth a = None -> a_labels a = []) ->
    exists a', arr_load (arr_store a) = Ok a' /\
      a_shape a' = a_shape a /\ a_depth a' = a_depth a /\ a_units a' = a_units a /\ a_names a' = a_names a /\
      a_labels a' = a_labels a /\ Forall2 dimv_equiv (a_dims a) (a_dims a').
Proof. exact calibration_roundtrip. Qed.
Print Assumptions C02_calibrations_round_trip.

(* its hypotheses hold for every Array the constructor builds (with C14_construction...) *)
Theorem C02_constructed_arrays_qualify :
  forall datashape dims units names labels a, arr_init datashape dims units names labels = Ok a ->
    arr_inv a /\ (forall d, a_depth a = Some d -> length (a_labels a) = d) /\ (a_depth a = None -> a_labels a = []).
Proof. intros. split; [eapply init_inv; eauto|eapply init_labels; eauto]. Qed.
Print Assumptions C02_constructed_arrays_qualify.

Theorem C02_linear_vector_reexpands_to_equal_values :
  forall xs n, dim_is_linear (VNum xs) n = true ->
    exists e, read_dim (stored_dim (VNum xs) n) n = Ok (VNum e) /\ list_eqb num_eqb xs e = true.
Proof. exact linear_roundtrip. Qed.
Print Assumptions C02_linear_vector_reexpands_to_equal_values.

Theorem C02_nonlinear_vector_is_stored_in_full_and_returned_as_is :
  forall d n, dim_is_linear d n = false -> dimv_len d = n -> read_dim (stored_dim d n) n = Ok d.
Proof. exact nonlinear_roundtrip. Qed.
Print Assumptions C02_nonlinear_vector_is_stored_in_full_and_returned_as_is.

(* the file holds, per axis, 2 entries or the axis extent *)
Theorem C02_stored_dim_has_2_or_N_entries :
  forall d n, dimv_len d = n -> dimv_len (stored_dim d n) = n \/ dimv_len (stored_dim d n) = 2.
Proof. exact stored_len. Qed.
Print Assumptions C02_stored_dim_has_2_or_N_entries.

(* non-vacuity: an exactly linear float vector is compressed, a nearly linear one (one ulp off) is not *)
Example C02_exact_vs_nearly_linear :
  dim_is_linear (VNum [NF 0%float; NF 0x1p-1%float; NF 1%float; NF 0x1.8p+0%float]) 4 = true /\
  dim_is_linear (VNum [NF 0%float; NF 0x1p-1%float; NF 0x1.0000000000001p+0%float; NF 0x1.8p+0%float]) 4 = false.
Proof. split; vm_compute; reflexivity. Qed.
