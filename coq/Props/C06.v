(* C06 -- nodes are re-created as the class that wrote them, incl. downstream subclasses.  Statements only.
   Model: Model/ClassLookup.v.  A Python module is (hook value, namespace); a namespace member is a class (identity,
   whether Node or Metadata is in its MRO), a module, or anything else; inspect.getmembers iterates by name.
   PARTIAL: what is proved is the lookup (which class object a recorded class name resolves to, for every module
   graph) and the Custom group layout.  That from_h5 then calls that class's own reader hooks and that type(node) is the
   class found is observed on real subclass hierarchies by the correspondence harness, not modelled. *)
From Coq Require Import List Bool Arith.
From Emd Require Import Base.Prelude Generated.Tables Model.ClassLookup Proofs.P06.

(* exposed fuel ns n c : namespace ns binds name n to class c (Node/Metadata in its MRO) directly or through hooked
   sub-modules, fewer than `fuel` levels down.  binds_only: no built-in and no hooked module binds n to another class
   (the property's "distinct class names"). *)
Theorem C06_a_class_exposed_by_a_hooked_module_is_the_class_found :
  forall builtins sysmods n c m,
    binds_only builtins sysmods n c -> In m sysmods -> fst m = true -> exposed walk_maxdepth (snd m) n c ->
    get_class builtins sysmods n = Ok c.
Proof. exact exposed_class_is_found. Qed.
Print Assumptions C06_a_class_exposed_by_a_hooked_module_is_the_class_found.

Theorem C06_builtin_classes_are_always_found :
  forall builtins sysmods n c, binds_only builtins sysmods n c -> get builtins n = Some c -> get_class builtins sysmods n = Ok c.
Proof. exact builtin_class_is_found. Qed.
Print Assumptions C06_builtin_classes_are_always_found.

(* never a substitute: whatever the lookup returns was bound under exactly the recorded name, by the built-ins or by a
   hooked module within the depth limit *)
Theorem C06_the_class_found_is_bound_under_the_recorded_name :
  forall builtins sysmods n c, get_class builtins sysmods n = Ok c ->
    get builtins n = Some c \/ exists m, In m sysmods /\ fst m = true /\ exposed walk_maxdepth (snd m) n c.
Proof. exact found_class_was_bound_under_that_name. Qed.
Print Assumptions C06_the_class_found_is_bound_under_the_recorded_name.

(* a class nobody exposes -- absent, only in un-hooked modules, below an un-hooked sub-module, or too deep -- is an error *)
Theorem C06_a_class_that_cannot_be_found_is_an_error :
  forall builtins sysmods n, get builtins n = None ->
    (forall m c, In m sysmods -> fst m = true -> ~ exposed walk_maxdepth (snd m) n c) ->
    exists e, get_class builtins sysmods n = Err e.
Proof. exact unexposed_class_is_an_error. Qed.
Print Assumptions C06_a_class_that_cannot_be_found_is_an_error.

(* the documented depth: hooked sub-modules nested 0..5 deep are searched, deeper ones are not *)
Theorem C06_hooked_submodules_are_searched_to_the_documented_depth :
  forall d k n c builtins, get builtins n = None ->
    (d <= 5 -> get_class builtins [(true, nest d k n c)] n = Ok c) /\
    (6 <= d -> exists e, get_class builtins [(true, nest d k n c)] n = Err e).
Proof.
  intros d k n c b Hb. split; intros Hd.
  - apply nested_up_to_the_documented_depth_is_found; [exact Hb|]. unfold walk_maxdepth. apply le_n_S. exact Hd.
  - apply nested_deeper_is_an_error; [exact Hb|exact Hd].
Qed.
Print Assumptions C06_hooked_submodules_are_searched_to_the_documented_depth.

(* un-hooked modules of sys.modules are not searched: dropping one changes no lookup; only `_emd_hook is True` opts in *)
Theorem C06_unhooked_modules_are_not_searched :
  forall builtins sm1 sm2 h ms n, h <> HTrue ->
    get_class_raw builtins (sm1 ++ (h, ms) :: sm2) n = get_class_raw builtins (sm1 ++ sm2) n.
Proof.
  intros b sm1 sm2 h ms n Hh. apply unhooked_top_modules_are_not_searched.
  destruct (hook_top h) eqn:E; [|reflexivity]. apply only_True_opts_in_at_top_level in E. contradiction.
Qed.
Print Assumptions C06_unhooked_modules_are_not_searched.

(* Custom: attributes holding nodes are stored under their attribute names with a custom_ group type; the reader hook
   gets exactly them, by name; the tree reader gets exactly the tree children *)
Theorem C06_custom_attributes_are_returned_by_name_and_are_not_children :
  forall md attrs kids,
    (forall kv, In kv attrs -> mem (snd kv) EMD_data_group_types = true) ->
    (forall kv, In kv kids -> mem (snd kv) EMD_data_group_types = true) ->
    attr_data (custom_links md attrs kids) = map fst attrs /\ tree_children (custom_links md attrs kids) = map fst kids.
Proof. exact custom_attributes_are_returned_by_name_and_are_not_children. Qed.
Print Assumptions C06_custom_attributes_are_returned_by_name_and_are_not_children.

(* non-vacuity: a class three hooked sub-modules down, next to an un-hooked module exposing another class of another
   name and a same-named non-emd class, is found; the class in the un-hooked module is not *)
Example C06_example :
  let deep := [("a", MMod true [("b", MMod true [("c", MMod true [("Mine", MClass 7 true)])])]);
               ("Mine", MClass 8 false); ("priv", MMod false [("Hidden", MClass 9 true)])] in
  let b := [("Node", 0); ("Array", 1)] in
  get_class b [(false, [("Other", MClass 5 true)]); (true, deep)] "Mine" = Ok 7 /\
  get_class b [(false, [("Other", MClass 5 true)]); (true, deep)] "Hidden" = Err EOther /\
  get_class b [(false, [("Other", MClass 5 true)]); (true, deep)] "Other" = Err EOther /\
  get_class b [(false, [("Other", MClass 5 true)]); (true, deep)] "Array" = Ok 1.
Proof. vm_compute. repeat split. Qed.
