(* C19 -- saving does not disturb the caller's objects and is repeatable.  Statements only.
   The effect model (Model/Effects.v) states what write() does to the live objects after the repairs (temporary
   root removed in a finally, Metadata names restored, list iterated).  Theorems: the PUBLIC view of every object
   (identity, kind, name, root, metadata, children -- everything but the private stored path) is unchanged by a
   save of an unrooted node and by a list save, whether the save succeeds or raises; the node is still unrooted.
   Repeatability: write_node / write_list are functions (same input, same fresh slot => same content; the UUID is
   the only header field not determined by the input, abstracted as "<uuid>").  The tie of the effect model to the
   code is the harness's before/after snapshots of the live objects on every save (oracle). *)
From Emd Require Import Base.Prelude Model.Forest Model.Effects Proofs.P19.
From Emd Require Model.H5 Model.Emd Model.EmdList.

Theorem C19_unrooted_save_leaves_public_view_unchanged :
  forall F x ok, (forall t, In t F -> tid t = x -> tsroot t = None) ->
    map public (save_unrooted F x ok) = map public F.
Proof. exact public_save_unrooted. Qed.
Print Assumptions C19_unrooted_save_leaves_public_view_unchanged.

Theorem C19_unrooted_node_is_still_unrooted :
  forall F x ok t, In t (save_unrooted F x ok) -> tid t = x -> tsroot t = None.
Proof. exact save_unrooted_still_unrooted. Qed.
Print Assumptions C19_unrooted_node_is_still_unrooted.

Theorem C19_list_save_leaves_public_view_unchanged :
  forall items F ok, (forall x t, In x items -> In t F -> tid t = x -> tsroot t = None) ->
    map public (save_list F items ok) = map public F.
Proof. exact public_save_list. Qed.
Print Assumptions C19_list_save_leaves_public_view_unchanged.

(* non-vacuity *)
Example C19_hypotheses_satisfiable :
  let F := [new_root 0 "r" []; new_node 1 "u" [("m", MD 0 "renamed" 5%Z)]] in
  (forall t, In t F -> tid t = 1 -> tsroot t = None) /\ map public (save_unrooted F 1 false) = map public F
  /\ save_unrooted F 1 true <> F.
Proof.
  cbv zeta. split; [intros t [<-|[<-|[]]]; cbn; [discriminate|reflexivity]|]. split; [reflexivity|]. cbn. discriminate.
Qed.
