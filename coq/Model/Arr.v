(* Array calibrations (classes/array.py): argument padding/truncation, expansion of None / number /
   pair / full vector to a dim vector, setters, stack algebra, and the dim-vector part of the HDF5 codec
   (compress linear vectors to two entries, re-expand on read).  Numbers are Python ints (Z) or binary64
   (PrimFloat, bit-exact); numpy's `start + step*np.arange(n)` is written out elementwise. *)
From Coq Require Import ZArith List Bool PrimFloat Uint63 FloatOps SpecFloat.
From Emd Require Import Base.Prelude.

Inductive num := NI (z : Z) | NF (f : float).

(* int -> binary64, correctly rounded (numpy / CPython): up to 63 bits by the primitive conversion; beyond, the top 63
   bits with a sticky bit for what is cut off, scaled back exactly *)
Definition Z2F_pos (z : Z) : float :=
  if (z <? 9223372036854775808)%Z then of_uint63 (Uint63.of_Z z)
  else let e := (Z.log2 z - 62)%Z in
       let m := Z.shiftr z e in
       let sticky := if Z.eqb (Z.shiftl m e) z then 0%Z else 1%Z in
       FloatOps.Z.ldexp (of_uint63 (Uint63.of_Z (Z.lor m sticky))) e.
Definition Z2F (z : Z) : float :=
  if (z <? 0)%Z then PrimFloat.opp (Z2F_pos (- z)) else Z2F_pos z.
Definition tofloat (x : num) : float := match x with NI z => Z2F z | NF f => f end.

Definition num_sub (a b : num) : num :=
  match a, b with NI x, NI y => NI (x - y) | _, _ => NF (PrimFloat.sub (tofloat a) (tofloat b)) end.
(* start + step * i  for an integer index i (an element of np.arange) *)
Definition ramp_at (start step : num) (i : nat) : num :=
  match start, step with
  | NI a, NI s => NI (a + s * Z.of_nat i)
  | _, _ => NF (PrimFloat.add (tofloat start) (PrimFloat.mul (tofloat step) (Z2F (Z.of_nat i))))
  end.
Definition ramp (start step : num) (n : nat) : list num := map (ramp_at start step) (seq 0 n).

(* numpy elementwise == (np.array_equal): numeric comparison, nan <> nan, 0.0 == -0.0 *)
Definition num_eqb (a b : num) : bool :=
  match a, b with NI x, NI y => Z.eqb x y | _, _ => PrimFloat.eqb (tofloat a) (tofloat b) end.

(* one entry of the `dims` argument: None, a number, a numeric list/array, or a list of strings *)
Inductive dimarg := DNone | DNumber (x : num) | DList (xs : list num) | DStrs (ss : list string).
(* a dim vector as held by the object *)
Inductive dimv := VNum (xs : list num) | VStr (ss : list string).
Definition dimv_len (d : dimv) : nat := match d with VNum xs => length xs | VStr ss => length ss end.

(* Array._unpack_dim(dim, length) *)
Definition unpack_dim (d : dimarg) (len : nat) : res dimv :=
  let d1 := match d with DNone => DList [NI 0; NI 1] | DNumber x => DList [NI 0; x] | _ => d end in
  match d1 with
  | DStrs ss => if Nat.eqb (length ss) len then Ok (VStr ss) else Err EAssert
  | DList xs =>
      let N := length xs in
      if Nat.eqb N len then Ok (VNum xs)
      else match xs with
           | [a; b] => Ok (VNum (ramp a (num_sub b a) len))
           | _ => Err EOther
           end
  | _ => Err EOther
  end.

(* Array._dim_is_linear(dim, length): expanding the first two entries gives the vector back *)
Definition dim_is_linear (d : dimv) (len : nat) : bool :=
  match d with
  | VStr _ => false
  | VNum xs => match unpack_dim (DList (firstn 2 xs)) len with
               | Ok (VNum e) => list_eqb num_eqb xs e
               | _ => false end
  end.
(* what to_h5 stores for one axis, and what the reader makes of it *)
Definition stored_dim (d : dimv) (len : nat) : dimv :=
  match d with VNum xs => if dim_is_linear d len then VNum (firstn 2 xs) else d | VStr _ => d end.
Definition read_dim (stored : dimv) (len : nat) : res dimv :=
  match stored with VNum xs => unpack_dim (DList xs) len | VStr ss => unpack_dim (DStrs ss) len end.

(* ---------- the object *)
Record arr := ARR {
  a_shape : list nat;                 (* extents of the calibrated (non-label) axes *)
  a_depth : option nat;               (* Some d for stack arrays *)
  a_dims : list dimv;
  a_units : list string;
  a_names : list string;
  a_labels : list string }.
Definition a_rank (a : arr) : nat := length (a_shape a).

Fixpoint pad_to {A} (l : list A) (n : nat) (dflt : nat -> A) (i : nat) : list A :=
  match n with
  | 0 => []
  | S n' => match l with
            | [] => dflt i :: pad_to [] n' dflt (S i)
            | x :: r => x :: pad_to r n' dflt (S i) end
  end.
Lemma pad_to_length {A} (l : list A) n d i : length (pad_to l n d i) = n.
Proof. revert l i. induction n as [|n IH]; intros l i; [reflexivity|]. destruct l; cbn; rewrite IH; reflexivity. Qed.

Fixpoint set_nth {A} (l : list A) (n : nat) (x : A) : list A :=
  match l, n with [], _ => [] | _ :: r, 0 => x :: r | y :: r, S n' => y :: set_nth r n' x end.
Lemma set_nth_length {A} (l : list A) n x : length (set_nth l n x) = length l.
Proof. revert n. induction l as [|y r IH]; intros n; [reflexivity|]. destruct n; cbn; [reflexivity|rewrite IH; reflexivity]. Qed.

Fixpoint unpack_all (ds : list dimarg) (shape : list nat) : res (list dimv) :=
  match ds, shape with
  | d :: r, n :: s => do v <- unpack_dim d n; do vs <- unpack_all r s; Ok (v :: vs)
  | [], [] => Ok []
  | _, _ => Err EOther
  end.

Definition is_none (d : dimarg) : bool := match d with DNone => true | _ => false end.

(* Array.__init__ (calibration part).  dims / dim_units / dim_names = None is the empty list of given
   entries; shorter lists are padded, longer ones truncated.  Labels: None / True / list. *)
Inductive labelarg := LNone | LTrue | LList (ls : list string).
Definition arr_init (datashape : list nat) (dims : list dimarg) (units : list string) (names : list string)
           (labels : labelarg) : res arr :=
  do sd <- (match labels with
            | LNone => Ok (datashape, None)
            | _ => match datashape with [] => Err EOther | d :: s => Ok (s, Some d) end
            end);
  let '(shape, depth) := sd in
  let rank := length shape in
  let dims' := pad_to dims rank (fun _ => DNone) 0 in
  let units' := pad_to units rank (fun i => if is_none (nth i dims' DNone) then "pixels" else "unknown") 0 in
  let names' := pad_to names rank (fun i => "dim" +++ nat_str i) 0 in
  let labs := match labels, depth with
              | LTrue, Some d => map (fun i => "array" +++ nat_str i) (seq 0 d)
              | LList ls, Some d => pad_to ls d (fun i => "array" +++ nat_str i) 0
              | _, _ => [] end in
  do vs <- unpack_all dims' shape;
  Ok (ARR shape depth vs units' names' labs).

(* set_dim(n, dim, units, name) / set_dim_units / set_dim_name *)
Definition set_dim (a : arr) (n : nat) (d : dimarg) (units name : option string) : res arr :=
  if Nat.ltb n (a_rank a) then
    do v <- unpack_dim d (nth n (a_shape a) 0);
    Ok (ARR (a_shape a) (a_depth a) (set_nth (a_dims a) n v)
            (match units with Some u => set_nth (a_units a) n u | None => a_units a end)
            (match name with Some s => set_nth (a_names a) n s | None => a_names a end) (a_labels a))
  else Err EAssert.
Definition set_dim_units (a : arr) (n : nat) (u : string) : res arr :=
  if Nat.ltb n (a_rank a) then Ok (ARR (a_shape a) (a_depth a) (a_dims a) (set_nth (a_units a) n u) (a_names a) (a_labels a)) else Err EAssert.
Definition set_dim_name (a : arr) (n : nat) (s : string) : res arr :=
  if Nat.ltb n (a_rank a) then Ok (ARR (a_shape a) (a_depth a) (a_dims a) (a_units a) (set_nth (a_names a) n s) (a_labels a)) else Err EAssert.

(* slicelabels._dict[label] : the LAST index carrying that label *)
Fixpoint label_index (ls : list string) (l : string) (i : nat) : option nat :=
  match ls with
  | [] => None
  | x :: r => match label_index r l (S i) with Some j => Some j | None => if String.eqb x l then Some i else None end
  end.
(* ar[label] : slice index, and the calibration of the returned (non-stack) Array *)
Definition get_slice (a : arr) (l : string) : res (nat * arr) :=
  match a_depth a, label_index (a_labels a) l 0 with
  | Some _, Some i => Ok (i, ARR (a_shape a) None (a_dims a) (a_units a) (a_names a) [])
  | _, _ => Err ENotFound
  end.

(* ---------- the calibration part of the HDF5 codec *)
Record stored := ST { s_datashape : list nat; s_dims : list dimv; s_units : list string; s_names : list string; s_labels : option (list string) }.
Definition arr_store (a : arr) : stored :=
  ST (match a_depth a with Some d => d :: a_shape a | None => a_shape a end)
     (map (fun dn => stored_dim (fst dn) (snd dn)) (combine (a_dims a) (a_shape a)))
     (a_units a) (a_names a)
     (match a_depth a with Some _ => Some (a_labels a) | None => None end).
Fixpoint read_all (ds : list dimv) (shape : list nat) : res (list dimv) :=
  match ds, shape with
  | d :: r, n :: s => do v <- read_dim d n; do vs <- read_all r s; Ok (v :: vs)
  | [], [] => Ok []
  | _, _ => Err EOther
  end.
(* _get_constructor_args + __init__ : dims from the file are never None *)
Definition arr_load (s : stored) : res arr :=
  do sd <- (match s_labels s with
            | None => Ok (s_datashape s, None)
            | Some _ => match s_datashape s with [] => Err EOther | d :: sh => Ok (sh, Some d) end end);
  let '(shape, depth) := sd in
  do vs <- read_all (s_dims s) shape;
  Ok (ARR shape depth vs (s_units s) (s_names s)
          (match s_labels s, depth with Some ls, Some d => pad_to ls d (fun i => "array" +++ nat_str i) 0 | _, _ => [] end)).
