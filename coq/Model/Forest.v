(* Runtime forest: the in-memory trees of emdfile nodes with the two fields the
   Python code actually follows (`_root`, `_treepath`) stored explicitly, and the
   tree-surgery operations of classes/node.py (add_to_tree, force_add_to_tree,
   _graft/graft, cut) written so that they locate their operands the way the code
   does: objects by identity (id), the upstream node through the *stored* root and
   *stored* path.  Model only; theorems are in Proofs/PForest*.v. *)
From Emd Require Import Base.Prelude.

(* a Metadata object: identity, its .name attribute, a token standing for its content *)
Record mdv := MD { md_id : nat; md_name : string; md_tok : Z }.

Inductive tn :=
  TN (id : nat) (isroot : bool) (nm : string)
     (sroot : option nat)                  (* _root : identity of the stored root, None = unrooted *)
     (spath : option (list string))        (* _treepath : None (fresh Node), Some [] = '' (Root), Some [a;b] = '/a/b' *)
     (mds : list (string * mdv))           (* _metadata dict: key -> Metadata *)
     (kids : list tn).                     (* _branch dict in insertion order; key = child's name *)

Definition tid t := match t with TN i _ _ _ _ _ _ => i end.
Definition tisroot t := match t with TN _ b _ _ _ _ _ => b end.
Definition tnm t := match t with TN _ _ n _ _ _ _ => n end.
Definition tsroot t := match t with TN _ _ _ r _ _ _ => r end.
Definition tspath t := match t with TN _ _ _ _ p _ _ => p end.
Definition tmds t := match t with TN _ _ _ _ _ m _ => m end.
Definition tkids t := match t with TN _ _ _ _ _ _ k => k end.

Definition forest := list tn.
Record st := ST { trees : forest; next_id : nat; next_md : nat }.

(* --- locating objects by identity *)
Fixpoint find (t : tn) (x : nat) : option tn :=
  if Nat.eqb (tid t) x then Some t else
  (fix go (l : list tn) : option tn :=
     match l with [] => None | k :: q => match find k x with Some r => Some r | None => go q end end) (tkids t).
Fixpoint ffind (F : forest) (x : nat) : option tn :=
  match F with [] => None | t :: q => match find t x with Some r => Some r | None => ffind q x end end.
Fixpoint ftop (F : forest) (x : nat) : option tn :=       (* a top-level tree by identity *)
  match F with [] => None | t :: q => if Nat.eqb (tid t) x then Some t else ftop q x end.

Fixpoint ids (t : tn) : list nat := tid t :: flat_map ids (tkids t).
Definition fids (F : forest) : list nat := flat_map ids F.
Fixpoint memn (x : nat) (l : list nat) : bool :=
  match l with [] => false | y :: r => if Nat.eqb x y then true else memn x r end.

(* --- dict operations on the children of a node *)
Fixpoint kid_get (l : list tn) (k : string) : option tn :=
  match l with [] => None | c :: r => if String.eqb k (tnm c) then Some c else kid_get r k end.
Fixpoint kid_del (l : list tn) (k : string) : list tn :=
  match l with [] => [] | c :: r => if String.eqb k (tnm c) then r else c :: kid_del r k end.
(* self._branch[node.name] = node : overwrite in place if the key exists, else append *)
Fixpoint kid_set (l : list tn) (s : tn) : list tn :=
  match l with [] => [s] | c :: r => if String.eqb (tnm s) (tnm c) then s :: r else c :: kid_set r s end.

(* walk a path of names from a node: Branch.__getitem__ *)
Fixpoint walk (t : tn) (p : list string) : option tn :=
  match p with [] => Some t
  | k :: q => match kid_get (tkids t) k with Some c => walk c q | None => None end end.

(* del(upstream._branch[b]) where upstream = walk t q ; None = KeyError / AssertionError *)
Fixpoint remove_at (t : tn) (q : list string) (b : string) : option tn :=
  match t with TN i r n sr sp m ks =>
    match q with
    | [] => match kid_get ks b with Some _ => Some (TN i r n sr sp m (kid_del ks b)) | None => None end
    | k :: q' =>
        match (fix go (l : list tn) : option (list tn) :=
           match l with [] => None
           | c :: rest => if String.eqb k (tnm c)
                          then match remove_at c q' b with Some c' => Some (c' :: rest) | None => None end
                          else match go rest with Some rest' => Some (c :: rest') | None => None end
           end) ks
        with Some ks' => Some (TN i r n sr sp m ks') | None => None end
    end
  end.

(* re-stamp a moved branch: node._root / node._treepath for the node and all its descendants *)
Fixpoint restamp (r : option nat) (path : list string) (t : tn) : tn :=
  match t with TN i b n _ _ m ks =>
    TN i b n r (Some (path ++ [n])) m (map (restamp r (path ++ [n])) ks) end.

(* recv._branch[s.name] = s, recv given by identity *)
Fixpoint insert_under (t : tn) (y : nat) (s : tn) : tn :=
  match t with TN i b n sr sp m ks =>
    if Nat.eqb i y then TN i b n sr sp m (kid_set ks s)
    else TN i b n sr sp m (map (fun k => insert_under k y s) ks) end.
Definition finsert (F : forest) (y : nat) (s : tn) : forest := map (fun t => insert_under t y s) F.

Fixpoint freplace_top (F : forest) (t' : tn) : forest :=
  match F with [] => [] | t :: q => if Nat.eqb (tid t) (tid t') then t' :: q else t :: freplace_top q t' end.
Fixpoint fremove_top (F : forest) (x : nat) : forest :=
  match F with [] => [] | t :: q => if Nat.eqb (tid t) x then q else t :: fremove_top q x end.
Definition set_mds (t : tn) (m : list (string * mdv)) : tn :=
  match t with TN i b n sr sp _ ks => TN i b n sr sp m ks end.
Definition set_kids (t : tn) (ks : list tn) : tn :=
  match t with TN i b n sr sp m _ => TN i b n sr sp m ks end.

(* --- add_to_tree(self = p, node = c) ---------------------------------------------
   asserts: self.root is not None, node.root is None.  The node must be a detached
   top-level object.  After the F2 repair the whole branch below `node` is stamped. *)
Definition attach (F : forest) (p : nat) (s : tn) : option forest :=
  match ffind F p with
  | Some pn =>
      match tsroot pn, tspath pn with
      | Some r, Some pp => Some (finsert F p (restamp (Some r) pp s))
      | _, _ => None
      end
  | None => None
  end.

Definition add_to_tree (F : forest) (p c : nat) : option forest :=
  match ffind F p, ftop F c with
  | Some pn, Some cn =>
      match tsroot pn, tsroot cn with
      | Some _, None => attach (fremove_top F c) p cn
      | _, _ => None
      end
  | _, _ => None
  end.

(* --- root metadata merge of _graft ------------------------------------------------ *)
Inductive mopt := MTrue | MFalse | MCopy | MOverwrite | MCopyover.

(* node.root.metadata = x : keyed by x.name *)
Definition md_assign (M : list (string * mdv)) (x : mdv) := set M (md_name x) x.
(* Metadata.copy(name=key) : fresh object, same content *)
Definition md_copy (x : mdv) (key : string) (fresh : nat) : mdv := MD fresh key (md_tok x).

Fixpoint md_merge (o : mopt) (Md : list (string * mdv)) (Mr : list (string * mdv)) (fresh : nat)
  : list (string * mdv) * nat :=
  match Md with
  | [] => (Mr, fresh)
  | (k, v) :: rest =>
      match o with
      | MFalse => (Mr, fresh)
      | MTrue => md_merge o rest (if has Mr k then Mr else md_assign Mr v) fresh
      | MOverwrite => md_merge o rest (md_assign Mr v) fresh
      | MCopy => if has Mr k then md_merge o rest Mr fresh
                 else md_merge o rest (md_assign Mr (md_copy v k fresh)) (S fresh)
      | MCopyover => md_merge o rest (md_assign Mr (md_copy v k fresh)) (S fresh)
      end
  end.

(* --- _graft(self = d, node = recv, merge_metadata = o) --------------------------- *)
Definition unsnoc (l : list string) : option (list string * string) :=
  match rev l with [] => None | b :: q => Some (rev q, b) end.

(* move the children of root tree `up` one by one under recv:
   n = upstream.tree(k); n._root = None; node.add_to_tree(n); del upstream._branch[k] *)
Fixpoint move_kids (F : forest) (up : nat) (recv : nat) (ks : list tn) : option forest :=
  match ks with
  | [] => Some F
  | k :: rest =>
      match attach F recv k with
      | Some F1 =>
          match ftop F1 up with
          | Some u => move_kids (freplace_top F1 (set_kids u (kid_del (tkids u) (tnm k)))) up recv rest
          | None => None
          end
      | None => None
      end
  end.

Definition graft (s : st) (recv d : nat) (o : mopt) : option st :=
  let F := trees s in
  match ffind F d, ffind F recv with
  | Some dn, Some rn =>
      match tsroot dn, tsroot rn, tspath dn with
      | Some rd, Some rr, Some dp =>
          match ftop F rd with
          | Some old_root =>
              let moved :=
                match unsnoc dp with
                | Some (q, b) =>                                  (* grafting from a non-root node *)
                    match remove_at old_root q b with
                    | Some old_root' => attach (freplace_top F old_root') recv dn
                    | None => None
                    end
                | None =>                                          (* grafting from a root: upstream = self.root *)
                    move_kids F rd recv (tkids old_root)
                end in
              match moved with
              | Some F1 =>
                  (* old_root.metadata merged into node.root.metadata *)
                  match ftop F1 rr with
                  | Some recv_root =>
                      let '(M, fresh) := md_merge o (tmds old_root) (tmds recv_root) (next_md s) in
                      Some (ST (freplace_top F1 (set_mds recv_root M)) (next_id s) fresh)
                  | None => None
                  end
              | None => None
              end
          | None => None
          end
      | _, _, _ => None
      end
  | _, _ => None
  end.

(* --- cut(self = d, root_metadata = o) : graft onto a fresh Root -------------------- *)
Definition cut (s : st) (d : nat) (o : mopt) : option st :=
  match ffind (trees s) d with
  | Some dn =>
      match tsroot dn with
      | Some rd =>
          match ftop (trees s) rd with
          | Some old_root =>
              let nr := TN (next_id s) true (tnm old_root +++ "_cut_" +++ tnm dn)
                           (Some (next_id s)) (Some []) [] [] in
              graft (ST (trees s ++ [nr]) (S (next_id s)) (next_md s)) (next_id s) d o
          | None => None
          end
      | None => None
      end
  | None => None
  end.

(* --- force_add_to_tree: try add_to_tree, on AssertionError graft without metadata -- *)
Definition force_add (s : st) (p c : nat) : option st :=
  match add_to_tree (trees s) p c with
  | Some F => Some (ST F (next_id s) (next_md s))
  | None => graft s p c MFalse
  end.

Inductive op := OAdd (p c : nat) | OForceAdd (p c : nat) | OGraft (recv d : nat) (o : mopt) | OCut (d : nat) (o : mopt).

(* one API call: new state and whether it returned normally; a call that raises changes nothing *)
Definition step (s : st) (o : op) : st * bool :=
  let r := match o with
           | OAdd p c => match add_to_tree (trees s) p c with
                         | Some F => Some (ST F (next_id s) (next_md s)) | None => None end
           | OForceAdd p c => force_add s p c
           | OGraft recv d m => graft s recv d m
           | OCut d m => cut s d m
           end in
  match r with Some s' => (s', true) | None => (s, false) end.

Fixpoint run (s : st) (ops : list op) : st * list bool :=
  match ops with
  | [] => (s, [])
  | o :: rest => let '(s1, b) := step s o in let '(s2, bs) := run s1 rest in (s2, b :: bs)
  end.

(* fresh objects as the constructors make them *)
Definition new_root (i : nat) (n : string) (m : list (string * mdv)) : tn := TN i true n (Some i) (Some []) m [].
Definition new_node (i : nat) (n : string) (m : list (string * mdv)) : tn := TN i false n None None m [].
