(* Metadata value codec (classes/metadata.py: _save_item / _read_item), with the numpy / h5py
   conversions emdfile leans on written out: promotion of number sequences (bool < int < float < complex),
   0-d datasets and .item(), tuple(array) giving numpy scalars.  Floats are binary64 (PrimFloat). *)
From Coq Require Import ZArith List Bool PrimFloat Uint63 FloatOps SpecFloat.
From Emd Require Import Base.Prelude.

(* int -> binary64, correctly rounded (numpy / CPython): up to 63 bits by the primitive conversion; beyond, the top 63
   bits with a sticky bit for what is cut off, scaled back exactly *)
Definition Z2F_pos (z : Z) : float :=
  if (z <? 9223372036854775808)%Z then of_uint63 (Uint63.of_Z z)
  else let e := (Z.log2 z - 62)%Z in
       let m := Z.shiftr z e in
       let sticky := if Z.eqb (Z.shiftl m e) z then 0%Z else 1%Z in
       FloatOps.Z.ldexp (of_uint63 (Uint63.of_Z (Z.lor m sticky))) e.
Definition Z2F (z : Z) : float :=
  if (z <? 0)%Z then PrimFloat.opp (Z2F_pos (- z)) else Z2F_pos z.

(* scalars: Python bool / int / float / complex (numpy scalars carry the same value) *)
Inductive sc := SB (b : bool) | SI (z : Z) | SF (f : float) | SC (re im : float).
Definition kind (x : sc) : nat := match x with SB _ => 0 | SI _ => 1 | SF _ => 2 | SC _ _ => 3 end.
Definition b2z (b : bool) : Z := if b then 1%Z else 0%Z.
(* numpy's conversion of a scalar to a higher kind *)
Definition to_kind (k : nat) (x : sc) : sc :=
  match k, x with
  | 1, SB b => SI (b2z b)
  | 2, SB b => SF (Z2F (b2z b)) | 2, SI z => SF (Z2F z)
  | 3, SB b => SC (Z2F (b2z b)) 0 | 3, SI z => SC (Z2F z) 0 | 3, SF f => SC f 0
  | _, _ => x
  end.
Definition max_kind (xs : list sc) : nat := fold_right (fun x m => Nat.max (kind x) m) 0 xs.
(* np.array(sequence of numbers) *)
Definition promote (xs : list sc) : list sc := map (to_kind (max_kind xs)) xs.

Definition in_int64 (z : Z) : bool := ((- 9223372036854775808 <=? z) && (z <=? 9223372036854775807))%Z.
Definition sc_storable (x : sc) : bool := match x with SI z => in_int64 z | _ => true end.

(* the value universe; deliberately contains unsupported and reader-produced forms *)
Inductive mval :=
  | MNone | MStr (s : string) | MSc (x : sc)
  | MNp (x : sc)                                    (* a numpy scalar *)
  | MArr (dt : string) (shape : list nat) (tok : Z)  (* ndarray: dtype, shape, content token *)
  | MTuple (xs : list mval) | MList (xs : list mval) | MDict (kvs : list (string * mval))
  | MBytes (s : string) | MOther.

(* what is in the file *)
Inductive dset :=
  | DsBytes (s : string)                 (* 0-d byte string *)
  | DsSc (x : sc)                        (* 0-d number / bool *)
  | DsVec (xs : list sc)                 (* 1-d, from a sequence of numbers (already promoted) *)
  | DsArr (dt : string) (shape : list nat) (tok : Z).
Inductive item :=
  | IData (tag : string) (d : dset)
  | IGroup (tag : string) (members : list dset)     (* tuple_of_* / list_of_* : members "0", "1", ... + length *)
  | IDict (kvs : list (string * item)).

Definition h5_dtype_ok (dt : string) : bool :=
  negb (String.prefix "<U" dt || String.prefix ">U" dt || String.prefix "|U" dt || String.eqb dt "object").

Fixpoint has_char (c : ascii) (s : string) : bool :=
  match s with EmptyString => false | String d r => Ascii.eqb c d || has_char c r end.
(* keys are HDF5 link names: not empty, not ".", no path separator (rejected at save time) *)
Definition valid_key (k : string) : bool :=
  negb (String.eqb k "") && negb (String.eqb k ".") && negb (has_char "/"%char k).

Definition is_number (v : mval) : option sc := match v with MSc x => Some x | MNp x => Some x | _ => None end.
(* isinstance(v, (Number, np.bool_)): Python bool/int/float/complex and numpy scalars *)
Definition isinstance_number (v : mval) : bool :=
  match v with MSc _ => true | MNp _ => true | _ => false end.
Fixpoint all_numbers (xs : list mval) : option (list sc) :=
  match xs with [] => Some []
  | v :: r => match is_number v, all_numbers r with Some x, Some l => Some (x :: l) | _, _ => None end end.
Definition is_tuple (v : mval) : bool := match v with MTuple _ => true | _ => false end.

Fixpoint opt_all {A B} (f : A -> option B) (l : list A) : option (list B) :=
  match l with [] => Some [] | x :: r => match f x, opt_all f r with Some y, Some ys => Some (y :: ys) | _, _ => None end end.

Definition vec_of (xs : list mval) : option dset :=
  match all_numbers xs with
  | Some l => if forallb sc_storable l then Some (DsVec (promote l)) else None
  | None => None end.
(* a member of a tuple of tuples: a number, or a flat tuple of numbers *)
Definition tt_member (v : mval) : option dset :=
  match v with
  | MTuple ys => vec_of ys
  | _ => if isinstance_number v then match is_number v with Some x => if sc_storable x then Some (DsSc x) else None | None => None end else None
  end.
Definition arr_member (v : mval) : option dset :=
  match v with MArr dt sh t => if h5_dtype_ok dt then Some (DsArr dt sh t) else None | _ => None end.
Definition str_member (v : mval) : option dset :=
  match v with MStr s => if has_char "000"%char s then None else Some (DsBytes s) | _ => None end.

(* the tuple / list branches of _save_item *)
Definition save_seq (tup : bool) (xs : list mval) : res item :=
  let tag := if tup then "tuple" else "list" in
  match xs with
  | [] => Ok (IData tag (DsVec []))
  | x0 :: _ =>
      if isinstance_number x0 then
        match vec_of xs with Some d => Ok (IData tag d) | None => Err ENumpy end
      else if tup && existsb is_tuple xs then
        match opt_all tt_member xs with Some ms => Ok (IGroup "tuple_of_tuples" ms) | None => Err EUnsupported end
      else match x0 with
           | MArr _ _ _ => match opt_all arr_member xs with Some ms => Ok (IGroup (tag +++ "_of_arrays") ms) | None => Err EOther end
           | MStr _ => match opt_all str_member xs with Some ms => Ok (IGroup (tag +++ "_of_strings") ms) | None => Err EOther end
           | _ => Err EUnsupported
           end
  end.

Fixpoint save_item (v : mval) : res item :=
  match v with
  | MDict kvs =>
      match (fix go (l : list (string * mval)) : res (list (string * item)) :=
               match l with
               | [] => Ok []
               | (k, x) :: r => if valid_key k then do it <- save_item x; do rest <- go r; Ok ((k, it) :: rest) else Err EOther
               end) kvs with
      | Ok l => Ok (IDict l)
      | Err e => Err e end
  | MNone => Ok (IData "None" (DsBytes "_None"))
  | MStr s => if has_char "000"%char s then Err EH5 else Ok (IData "string" (DsBytes s))
  | MSc (SB b) => Ok (IData "bool" (DsSc (SB b)))
  | MSc x => if sc_storable x then Ok (IData "number" (DsSc x)) else Err ENumpy
  | MNp (SB b) => Ok (IData "bool" (DsSc (SB b)))
  | MNp x => Ok (IData "number" (DsSc x))          (* dtype = type(v): a numpy scalar is stored as its own dtype *)
  | MArr dt sh t => if h5_dtype_ok dt then Ok (IData "array" (DsArr dt sh t)) else Err EH5
  | MTuple xs => save_seq true xs
  | MList xs => save_seq false xs
  | MBytes _ | MOther => Err EUnsupported
  end.

(* ---------- _read_item *)
Definition rd_vec (d : dset) : mval :=                  (* tuple(v[...]) / list(v[...]) elements *)
  match d with DsVec xs => MTuple (map MNp xs) | _ => MOther end.
Definition rd_member_tt (d : dset) : mval :=
  match d with
  | DsSc x => MSc x                                     (* ndim 0 -> .item() *)
  | DsVec xs => MTuple (map MNp xs)                     (* tuple(x) *)
  | DsBytes s => MBytes s
  | DsArr _ _ _ => MOther
  end.
Definition rd_member_arr (d : dset) : mval :=
  match d with DsArr dt sh t => MArr dt sh t | DsVec xs => MOther | _ => MOther end.
Definition rd_member_str (d : dset) : mval := match d with DsBytes s => MStr s | _ => MOther end.

Fixpoint read_item (it : item) : res mval :=
  match it with
  | IDict kvs =>
      match (fix go (l : list (string * item)) : res (list (string * mval)) :=
               match l with [] => Ok []
               | (k, x) :: r => do v <- read_item x; do rest <- go r; Ok ((k, v) :: rest) end) kvs with
      | Ok l => Ok (MDict l) | Err e => Err e end
  | IData tag d =>
      if String.eqb tag "None" then Ok MNone
      else if String.eqb tag "string" then match d with DsBytes s => Ok (if String.eqb s "_None" then MNone else MStr s) | _ => Err EOther end
      else if String.eqb tag "number" then match d with DsSc x => Ok (MSc x) | _ => Err EOther end
      else if String.eqb tag "bool" then match d with DsSc x => Ok (MSc x) | _ => Err EOther end
      else if String.eqb tag "array" then match d with DsArr dt sh t => Ok (MArr dt sh t) | _ => Err EOther end
      else if String.eqb tag "tuple" then match d with DsVec xs => Ok (MTuple (map MNp xs)) | _ => Err EOther end
      else if String.eqb tag "list" then match d with DsVec xs => Ok (MList (map MNp xs)) | _ => Err EOther end
      else Err EOther
  | IGroup tag ms =>
      if String.eqb tag "tuple_of_tuples" then Ok (MTuple (map rd_member_tt ms))
      else if String.eqb tag "tuple_of_arrays" then Ok (MTuple (map rd_member_arr ms))
      else if String.eqb tag "tuple_of_strings" then Ok (MTuple (map rd_member_str ms))
      else if String.eqb tag "list_of_arrays" then Ok (MList (map rd_member_arr ms))
      else if String.eqb tag "list_of_strings" then Ok (MList (map rd_member_str ms))
      else Err EOther
  end.

(* ---------- "an equal value of the same kind" *)
Definition sf_eqb (a b : spec_float) : bool :=
  match a, b with
  | S754_zero s, S754_zero s' => Bool.eqb s s'
  | S754_infinity s, S754_infinity s' => Bool.eqb s s'
  | S754_nan, S754_nan => true
  | S754_finite s m e, S754_finite s' m' e' => Bool.eqb s s' && Pos.eqb m m' && Z.eqb e e'
  | _, _ => false end.
Definition f_same (x y : float) : bool := sf_eqb (Prim2SF x) (Prim2SF y).
Definition sc_same (a b : sc) : bool :=
  match a, b with
  | SB x, SB y => Bool.eqb x y | SI x, SI y => Z.eqb x y | SF x, SF y => f_same x y
  | SC a1 a2, SC b1 b2 => f_same a1 b1 && f_same a2 b2 | _, _ => false end.
Definition exact_in_double (z : Z) : bool := ((- 9007199254740992 <=? z) && (z <=? 9007199254740992))%Z.
(* the element came back as the numpy conversion of the original to a higher kind, losslessly *)
Definition sc_equiv (orig back : sc) : bool :=
  sc_same orig back ||
  match orig, back with
  | SB b, SI z => Z.eqb z (b2z b)
  | SB b, SF f => f_same f (Z2F (b2z b))
  | SB b, SC re im => f_same re (Z2F (b2z b)) && f_same im 0
  | SI z, SF f => exact_in_double z && f_same f (Z2F z)
  | SI z, SC re im => exact_in_double z && f_same re (Z2F z) && f_same im 0
  | SF f, SC re im => f_same re f && f_same im 0
  | _, _ => false end.

(* elements of sequences: numbers may come back as numpy scalars of a higher kind *)
Fixpoint elem_equiv (o b : mval) : bool :=
  match o, b with
  | MStr s, MStr s' => String.eqb s s'
  | MArr dt sh t, MArr dt' sh' t' => String.eqb dt dt' && list_eqb Nat.eqb sh sh' && Z.eqb t t'
  | MTuple xs, MTuple ys =>
      (fix go (l l' : list mval) : bool := match l, l' with [] , [] => true | x :: r, y :: r' => elem_equiv x y && go r r' | _, _ => false end) xs ys
  | _, _ => match is_number o, is_number b with Some x, Some y => sc_equiv x y | _, _ => false end
  end.

Fixpoint mequiv (o b : mval) : bool :=
  match o, b with
  | MNone, MNone => true
  | MStr s, MStr s' => String.eqb s s'
  | MSc x, MSc y => sc_same x y                       (* bool stays bool, int int, float float, complex complex *)
  | MNp x, MSc y => sc_same x y                       (* a numpy scalar comes back as the Python scalar of its kind *)
  | MArr dt sh t, MArr dt' sh' t' => String.eqb dt dt' && list_eqb Nat.eqb sh sh' && Z.eqb t t'
  | MTuple xs, MTuple ys => list_eqb elem_equiv xs ys
  | MList xs, MList ys => list_eqb elem_equiv xs ys
  | MDict kvs, MDict kvs' =>
      Nat.eqb (length kvs) (length kvs') &&
      (fix go (l : list (string * mval)) : bool :=
         match l with [] => true
         | (k, v) :: r => match get kvs' k with Some v' => mequiv v v' | None => false end && go r end) kvs
  | _, _ => false
  end.
