(* emdfile's reader at tree level: Node.from_h5 (template payloads), _populate_tree, read(). *)
From Emd Require Import Base.Prelude Model.H5 Model.Emd Generated.Tables.

Definition cls_of_pyclass (s : string) : option cls :=
  if String.eqb s "Root" then Some CRoot else if String.eqb s "Node" then Some CNode
  else if String.eqb s "Array" then Some CArray else if String.eqb s "PointList" then Some CPl
  else if String.eqb s "PointListArray" then Some CPla else None.

Definition dset_tok (o : obj) : option (Z * list nat) := match o with D _ s t => Some (t, s) | G _ _ => None end.

(* Metadata.from_h5 on the template: a group tagged "metadata" whose items all carry a 'type' *)
Definition read_md (o : obj) : res Z :=
  match o with
  | G _ l => if attr_is o "emd_group_type" "metadata"
             then if forallb (fun kv => has (oattrs (snd kv)) "type") l
                  then match get l "tok" with Some (D _ _ t) => Ok t | _ => Ok (-1)%Z end
                  else Err EOther
             else Err EAssert
  | D _ _ _ => Err EAssert      (* "emd_group_type" in dataset.attrs fails *)
  end.
Definition read_bundle (g : obj) : res (list (string * Z)) :=
  match get (olinks g) "metadatabundle" with
  | None => Ok []
  | Some b => fold_right (fun kv acc => do r <- acc; do t <- read_md (snd kv); Ok ((fst kv, t) :: r)) (Ok []) (ksort (olinks b))
  end.

(* cls.from_h5(group) without children; c = the class doing the reading *)
Definition from_h5 (c : cls) (name : string) (g : obj) : res rnode :=
  match attr_str g "emd_group_type" with
  | None => Err EAssert
  | Some t =>
    if negb (mem t EMD_group_types) then Err EAssert else
    do payload <-
      (match c with
       | CArray => match get (olinks g) "data" with
                   | Some (D a s t) =>
                       if has a "units" then
                         let r := length s in        (* 0-d data: no dim datasets are looked at *)
                         if forallb (fun i => match get (olinks g) ("dim" +++ nat_str i) with
                                              | Some (D da _ _) => has da "name" && has da "units" | _ => false end) (seq 0 r)
                         then Ok (t, r) else Err ENotFound
                       else Err ENotFound
                   | _ => Err ENotFound end
       | CPl => match filter (fun kv => negb (is_group (snd kv))) (ksort (olinks g)) with
                | (_, D a _ t) :: _ as fs => if forallb (fun kv => has (oattrs (snd kv)) "dtype") fs then Ok (t, 0) else Err ENotFound
                | _ => Err EOther end
       | CPla => match get (olinks g) "data" with Some (D _ _ t) => Ok (t, 0) | _ => Err ENotFound end
       | _ => Ok (0%Z, 0%nat)
       end);
    do mds <- read_bundle g;
    Ok (RN c name (fst payload) (snd payload) mds [])
  end.

(* _read_single_node(grp): class from the python_class tag *)
Definition read_single_node (name : string) (g : obj) : res rnode :=
  match attr_str g "python_class" with
  | None => Err EOther
  | Some pc => match cls_of_pyclass pc with Some c => from_h5 c name g | None => Err EOther end
  end.

Definition with_kids (n : rnode) (ks : list rnode) : rnode :=
  match n with RN c s t r m _ => RN c s t r m ks end.

Fixpoint rinsert (x : rnode) (l : list rnode) : list rnode :=
  match l with [] => [x] | y :: r => if String.leb (rname x) (rname y) then x :: l else y :: rinsert x r end.
Definition rsort (l : list rnode) : list rnode := fold_right rinsert [] l.

(* _populate_tree(node, group): the nodes below group, each with its own branch *)
Fixpoint populate (g : obj) : res (list rnode) :=
  match g with
  | D _ _ _ => Ok []
  | G _ l =>
      do ks <- (fix go (l : list (string * obj)) : res (list rnode) :=
         match l with
         | [] => Ok []
         | (k, c) :: r =>
             if is_data_group c
             then do n <- read_single_node k c; do sub <- populate c; do rest <- go r; Ok (with_kids n sub :: rest)
             else go r
         end) l;
      Ok (rsort ks)
  end.

Inductive rret := RetRoot | RetNode (p : path) | RetMd (k : string).
Inductive rres := RNames (l : list string) | RTree (t : rnode) (ret : rret).

(* walk group names from the root group: assert(name in nodegroup.keys()) *)
Fixpoint walk_groups (g : obj) (names : list string) : res obj :=
  match names with
  | [] => Ok g
  | k :: q => match g with G _ l => match get l k with Some c => walk_groups c q | None => Err EAssert end
                        | D _ _ _ => Err EOther end
  end.

Definition read_emd (f : obj) (emdpath : option string) (tree : option bool) : res rres :=
  let rgs := rootgroups f in
  let ep := match emdpath with
            | Some e => Some e
            | None => match rgs with [r] => Some r | _ => None end end in
  match ep with
  | None => match rgs with [] => Err EOther | _ => Ok (RNames rgs) end
  | Some e =>
      let p := remove_first_empty (split_slash e) in
      match p with
      | [] => Err EOther
      | rootpath :: names =>
          let treepath := join_slash names in
          match get (olinks f) rootpath with
          | None => Err EAssert
          | Some rootgroup =>
              let gnames := split_slash treepath in
              let at_root := match gnames with [x] => String.eqb x "" | _ => false end in
              do nodegroup <- (if at_root then Ok rootgroup else walk_groups rootgroup gnames);
              do root <- from_h5 CRoot rootpath rootgroup;
              if at_root then
                match tree with
                | Some false => Ok (RTree root RetRoot)
                | Some true =>
                    do ks <- populate rootgroup;
                    let t := with_kids root ks in
                    match ks, rmds root with
                    | [k], _ => Ok (RTree t (RetNode [rname k]))
                    | [], [(mk, _)] => Ok (RTree t (RetMd mk))
                    | _, _ => Ok (RTree t RetRoot)
                    end
                | None => do ks <- populate rootgroup; Ok (RTree (with_kids root ks) RetRoot)
                end
              else
                let nm := last gnames "" in
                match tree with
                | Some false => do n <- read_single_node nm nodegroup; Ok (RTree (with_kids root [n]) (RetNode [nm]))
                | Some true => do n <- read_single_node nm nodegroup; do ks <- populate nodegroup;
                               Ok (RTree (with_kids root [with_kids n ks]) (RetNode [nm]))
                | None => do ks <- populate nodegroup; Ok (RTree (with_kids root ks) RetRoot)
                end
          end
      end
  end.

Definition read (s : slot) (emdpath : option string) (tree : option bool) : res rres :=
  match s with
  | Absent => Err EAssert
  | Raw _ => Err EOther
  | H5 f => if is_emd_file f then read_emd f emdpath tree else Err EOther   (* legacy import: separate model *)
  end.
