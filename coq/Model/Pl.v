(* PointList / PointListArray codecs (classes/pointlist.py, pointlistarray.py).
   The bulk of a column / of a cell is a content token (h5py stores and returns it); what emdfile itself does is
   modelled: one dataset per field with the field dtype recorded through its string form, reconstruction of the
   structured array from the datasets in h5py's (name-sorted) iteration order, cell-by-cell re-population of a
   PointListArray with the per-cell `except ValueError: pass`. *)
From Emd Require Import Base.Prelude.

(* scalar field dtypes HDF5 can hold; DBytes carries its width as the decimal digits numpy prints *)
Inductive endian := LE | BE.
Inductive dtype :=
  | DBool | DInt (signed : bool) (bytes : nat) (e : endian) | DFloat (bytes : nat) (e : endian) | DComplex (bytes : nat) (e : endian)
  | DBytes (width : string).

Definition bits (n : nat) : string := nat_str (8 * n).
Definition code (n : nat) : string := nat_str n.
(* str(numpy dtype) *)
Definition dtype_to_str (d : dtype) : string :=
  match d with
  | DBool => "bool"
  | DInt s n LE => (if s then "int" else "uint") +++ bits n
  | DInt s n BE => if Nat.eqb n 1 then (if s then "int8" else "uint8") else ">" +++ (if s then "i" else "u") +++ code n
  | DFloat n LE => "float" +++ bits n
  | DFloat n BE => ">f" +++ code n
  | DComplex n LE => "complex" +++ bits n
  | DComplex n BE => ">c" +++ code n
  | DBytes w => "|S" +++ w
  end.

Definition valid_dtype (d : dtype) : bool :=
  match d with
  | DBool => true
  | DInt _ n e => (Nat.eqb n 1 && match e with LE => true | BE => false end) || Nat.eqb n 2 || Nat.eqb n 4 || Nat.eqb n 8
  | DFloat n _ => Nat.eqb n 2 || Nat.eqb n 4 || Nat.eqb n 8
  | DComplex n _ => Nat.eqb n 8 || Nat.eqb n 16
  | DBytes w => negb (String.eqb w "")
  end.

(* np.dtype(string), on the strings above *)
Definition all_numeric : list dtype :=
  DBool :: flat_map (fun e => flat_map (fun n => [DInt true n e; DInt false n e]) [1; 2; 4; 8]) [LE; BE]
  ++ flat_map (fun e => map (fun n => DFloat n e) [2; 4; 8]) [LE; BE]
  ++ flat_map (fun e => map (fun n => DComplex n e) [8; 16]) [LE; BE].
Definition dtype_of_str (s : string) : option dtype :=
  match s with
  | String "|" (String "S" w) => if String.eqb w "" then None else Some (DBytes w)
  | _ => find (fun d => valid_dtype d && String.eqb (dtype_to_str d) s) all_numeric
  end.

(* ---------- PointList *)
Record field := FLD { f_name : string; f_dtype : dtype; f_tok : Z }.      (* one column: name, dtype, content token *)
Record pl := PLV { pl_len : nat; pl_fields : list field }.
(* the file: dataset name -> (dtype attribute string, length, content token) *)
Definition pl_file := list (string * (string * nat * Z)).
Definition pl_store (p : pl) : pl_file :=
  map (fun f => (f_name f, (dtype_to_str (f_dtype f), pl_len p, f_tok f))) (pl_fields p).
(* _get_constructor_args: fields in name order, each with np.dtype(attribute) *)
Definition first_len (fs : pl_file) : option nat := match fs with (_, (_, len, _)) :: _ => Some len | [] => None end.
Definition decode_all (fs : pl_file) : res (list field) :=
  fold_right (fun kv acc => do r <- acc;
                match dtype_of_str (fst (fst (snd kv))) with
                | Some d => Ok (FLD (fst kv) d (snd (snd kv)) :: r)
                | None => Err EOther end) (Ok []) fs.
Definition pl_load (file : pl_file) : res pl :=
  let fs := ksort file in
  match first_len fs with
  | None => Err EOther                                      (* fields[0] *)
  | Some len => do flds <- decode_all fs; Ok (PLV len flds)
  end.

(* ---------- PointListArray *)
Record pla := PLA { pla_shape : nat * nat; pla_dtype : string; pla_cells : list (list (nat * Z)) }.   (* per cell: length, content token *)
(* what h5py hands back for a cell, or a ValueError *)
Inductive cellread := CellOk (len : nat) (tok : Z) | CellValueError.
(* _populate_instance: self[i,j].add(dset[i,j]) ; except ValueError: pass *)
Definition populate_cell (r : cellread) : nat * Z := match r with CellOk n t => (n, t) | CellValueError => (0%nat, 0%Z) end.
Definition pla_load (shape : nat * nat) (dt : string) (reads : list (list cellread)) : pla :=
  PLA shape dt (map (map populate_cell) reads).
Definition faithful_h5 (p : pla) : list (list cellread) := map (map (fun c => CellOk (fst c) (snd c))) (pla_cells p).
