(* HDF5 objects as far as emdfile's tree-level logic looks at them.  Models h5py/HDF5, not
   emdfile: groups with attributes and named links, datasets with attributes, a shape and a content
   token.  Link order is insertion order here; h5py iterates by name (byte order) -- functions that
   depend on iteration order sort explicitly (ksort), comparisons are made on canonical forms. *)
From Emd Require Import Base.Prelude.

Inductive attrv := AStr (s : string) | AInt (z : Z).
Inductive obj :=
  | G (attrs : list (string * attrv)) (links : list (string * obj))
  | D (attrs : list (string * attrv)) (shape : list nat) (tok : Z).

Definition path := list string.

Definition oattrs (o : obj) := match o with G a _ => a | D a _ _ => a end.
Definition olinks (o : obj) := match o with G _ l => l | D _ _ _ => [] end.
Definition is_group (o : obj) : bool := match o with G _ _ => true | D _ _ _ => false end.

Definition attr_str (o : obj) (k : string) : option string :=
  match get (oattrs o) k with Some (AStr s) => Some s | _ => None end.
Definition attr_is (o : obj) (k v : string) : bool :=
  match attr_str o k with Some s => String.eqb s v | None => false end.

Fixpoint lookup (o : obj) (p : path) : option obj :=
  match p with
  | [] => Some o
  | k :: q => match o with G _ l => match get l k with Some c => lookup c q | None => None end
                        | D _ _ _ => None end
  end.

(* apply a local transformer to the object at path p (h5py: operate through a handle) *)
Fixpoint update_at (o : obj) (p : path) (w : obj -> res obj) : res obj :=
  match p with
  | [] => w o
  | k :: q => match o with
              | G a l => match get l k with
                         | Some c => do c' <- update_at c q w; Ok (G a (set l k c'))
                         | None => Err ENotFound end
              | D _ _ _ => Err ENotFound end
  end.

(* group.create_group(name) / create_dataset(name): fails on an existing link *)
Definition add_link (name : string) (c : obj) (g : obj) : res obj :=
  match g with
  | G a l => if has l name then Err ENameExists else Ok (G a (l ++ [(name, c)]))
  | D _ _ _ => Err EH5
  end.
Definition del_link (name : string) (g : obj) : res obj :=
  match g with
  | G a l => if has l name then Ok (G a (del l name)) else Err ENotFound
  | D _ _ _ => Err EH5 end.
(* group.move(a, b): fails if a is missing or b exists *)
Definition move_link (a b : string) (g : obj) : res obj :=
  match g with
  | G at_ l => if has l a then if has l b then Err ENameExists else Ok (G at_ (rename l a b)) else Err ENotFound
  | D _ _ _ => Err EH5 end.
Definition set_attr (k : string) (v : attrv) (g : obj) : obj :=
  match g with G a l => G (set a k v) l | D a s t => D (set a k v) s t end.

(* the file on disk *)
Inductive slot := Absent | Raw (tok : Z) | H5 (o : obj).

(* ---- canonical form and equality (used by the correspondence only) *)
Definition attrv_eqb (a b : attrv) : bool :=
  match a, b with AStr x, AStr y => String.eqb x y | AInt x, AInt y => Z.eqb x y | _, _ => false end.
Definition attrs_eqb (a b : list (string * attrv)) : bool :=
  list_eqb (fun x y => String.eqb (fst x) (fst y) && attrv_eqb (snd x) (snd y)) (ksort a) (ksort b).

Fixpoint canon (o : obj) : obj :=
  match o with
  | G a l => G (ksort a) (ksort (map (fun kv => (fst kv, canon (snd kv))) l))
  | D a s t => D (ksort a) s t
  end.

Fixpoint obj_eqb (x y : obj) : bool :=
  match x, y with
  | G a l, G a' l' =>
      list_eqb (fun p q => String.eqb (fst p) (fst q) && attrv_eqb (snd p) (snd q)) a a'
      && (fix go (l l' : list (string * obj)) : bool :=
            match l, l' with
            | [], [] => true
            | (k, c) :: r, (k', c') :: r' => String.eqb k k' && obj_eqb c c' && go r r'
            | _, _ => false end) l l'
  | D a s t, D a' s' t' =>
      list_eqb (fun p q => String.eqb (fst p) (fst q) && attrv_eqb (snd p) (snd q)) a a'
      && list_eqb Nat.eqb s s' && Z.eqb t t'
  | _, _ => false
  end.
Definition obj_equiv (x y : obj) : bool := obj_eqb (canon x) (canon y).

Definition slot_equiv (a b : slot) : bool :=
  match a, b with
  | Absent, Absent => true
  | Raw x, Raw y => Z.eqb x y
  | H5 x, H5 y => obj_equiv x y
  | _, _ => false end.

(* split a Python string on "/" : str.split('/') *)
Fixpoint split_aux (s : string) (cur : string) : list string :=
  match s with
  | EmptyString => [cur]
  | String c r => if Ascii.eqb c "/"%char then cur :: split_aux r "" else split_aux r (cur +++ String c "")
  end.
Definition split_slash (s : string) : list string := split_aux s "".
(* list.remove('') : drop the first empty component, if any *)
Fixpoint remove_first_empty (l : list string) : list string :=
  match l with [] => [] | x :: r => if String.eqb x "" then r else x :: remove_first_empty r end.
Fixpoint join_slash (l : list string) : string :=
  match l with [] => "" | [x] => x | x :: r => x +++ "/" +++ join_slash r end.
