(* Fault model for C18: the append / append-over helpers of utils.py with a budget of HDF5 mutations
   that still succeed.  A node (or metadata entry) is written atomically at this granularity: a fault
   inside its creation leaves, after the repair's clean-up, the same state as a fault before it. *)
From Emd Require Import Base.Prelude Model.H5 Model.Emd.

Definition B := option nat.            (* None = no injected fault *)
Definition tick (b : B) : option B :=
  match b with None => Some None | Some 0 => None | Some (S k) => Some (Some k) end.

Definition R := (obj * B * bool)%type.   (* new state, remaining budget, completed? *)

Definition in_child_b (name : string) (w : obj -> B -> R) (g : obj) (b : B) : R :=
  match g with
  | G a l => match get l name with
             | Some c => let '(c', b', ok) := w c b in (G a (set l name c'), b', ok)
             | None => (g, b, false) end
  | D _ _ _ => (g, b, false)
  end.

(* create one node (children excluded): one tick; a name clash is a natural failure *)
Definition write_single_b (n : rnode) (g : obj) (b : B) : R :=
  match tick b with
  | None => (g, b, false)
  | Some b' => match write_single_node n g with Ok g' => (g', b', true) | Err _ => (g, b', false) end
  end.

Fixpoint write_tree_b (n : rnode) (g : obj) (b : B) : R :=
  fold_left (fun (acc : R) k =>
      let '(g0, b0, ok0) := acc in
      if ok0 then
        let '(g1, b1, ok1) := write_single_b k g0 b0 in
        if ok1 then in_child_b (rname k) (write_tree_b k) g1 b1 else (g1, b1, false)
      else acc) (rkids n) (g, b, true).

Fixpoint link_all (src : list (string * obj)) (g : obj) (b : B) : R :=
  match src with
  | [] => (g, b, true)
  | (k, v) :: r => match tick b with
                   | None => (g, b, false)
                   | Some b' => match add_link k v g with Ok g' => link_all r g' b' | Err _ => (g, b', false) end
                   end
  end.

(* _overwrite_single_node with the rollback of the repaired code, acting on the parent group *)
Definition restore (name : string) (parent : obj) : obj :=
  match parent with
  | G a l => G a (rename (del l name) (tmpname name) name)
  | D _ _ _ => parent end.
Definition restore_moved (name : string) (parent : obj) : obj :=
  match parent with G a l => G a (rename l (tmpname name) name) | D _ _ _ => parent end.

Definition overwrite_b (n : rnode) (parent : obj) (b : B) : R :=
  let name := rname n in
  match get (olinks parent) name with
  | None => (parent, b, false)
  | Some old =>
    match tick b with None => (parent, b, false) | Some b1 =>                       (* move name -> _tmp_name *)
    match move_link name (tmpname name) parent with Err _ => (parent, b1, false) | Ok p1 =>
    match tick b1 with None => (restore_moved name p1, b1, false) | Some b2 =>      (* write the new node *)
    match write_single_node n p1 with Err _ => (restore_moved name p1, b2, false) | Ok p2 =>
    let keep := filter (fun kv => is_data_group (snd kv)) (ksort (olinks old)) in
    let '(p3, b3, ok3) := in_child_b name (link_all keep) p2 b2 in
    if negb ok3 then (restore name p3, b3, false) else
    match tick b3 with None => (restore name p3, b3, false) | Some b4 =>            (* delete _tmp_name *)
    match del_link (tmpname name) p3 with Ok p4 => (p4, b4, true) | Err _ => (restore name p3, b4, false) end
    end end end end end
  end.

Fixpoint append_branch_b (ao : bool) (n : rnode) (g : obj) (b : B) : R :=
  fold_left (fun (acc : R) k =>
      let '(g0, b0, ok0) := acc in
      if ok0 then
        let groupkeys := map fst (filter (fun kv => is_group (snd kv) && has_gtype (snd kv)) (olinks g0)) in
        if mem (rname k) groupkeys
        then let '(g1, b1, ok1) := if ao then overwrite_b k g0 b0 else (g0, b0, true) in
             if ok1 then in_child_b (rname k) (append_branch_b ao k) g1 b1 else (g1, b1, false)
        else let '(g1, b1, ok1) := write_single_b k g0 b0 in
             if ok1 then in_child_b (rname k) (write_tree_b k) g1 b1 else (g1, b1, false)
      else acc) (rkids n) (g, b, true).

(* _append_root_metadata of the repaired code: an entry is added atomically; a replaced entry is moved
   aside first and put back on failure *)
Definition md_entry_b (ao : bool) (existing : list string) (kt : string * Z) (bg : obj) (b : B) : R :=
  let k := fst kt in
  if mem k existing then
    if ao then
      match tick b with None => (bg, b, false) | Some b1 =>
      match move_link k (tmpname k) bg with Err _ => (bg, b1, false) | Ok g1 =>
      match tick b1 with None => (restore_moved k g1, b1, false) | Some b2 =>
      match add_link k (md_group (snd kt)) g1 with Err _ => (restore_moved k g1, b2, false) | Ok g2 =>
      match tick b2 with None => (restore k g2, b2, false) | Some b3 =>
      match del_link (tmpname k) g2 with Ok g3 => (g3, b3, true) | Err _ => (restore k g2, b3, false) end
      end end end end end
    else (bg, b, true)
  else
    match tick b with None => (bg, b, false) | Some b1 =>
    match add_link k (md_group (snd kt)) bg with Ok g1 => (g1, b1, true) | Err _ => (bg, b1, false) end end.

Definition append_root_metadata_b (ao : bool) (mds : list (string * Z)) (rootgroup : obj) (b : B) : R :=
  match mds with
  | [] => (rootgroup, b, true)
  | _ =>
      let '(rg, b0, ok0) :=
        if has (olinks rootgroup) "metadatabundle" then (rootgroup, b, true)
        else match tick b with None => (rootgroup, b, false) | Some b' =>            (* create_group, then its tag *)
             match add_link "metadatabundle" (G [] []) rootgroup with
             | Err _ => (rootgroup, b', false)
             | Ok g => match tick b' with
                       | None => (g, b', false)
                       | Some b'' => match in_child "metadatabundle" (fun x => Ok (set_attr "emd_group_type" (AStr "metadatabundle") x)) g with
                                     | Ok g' => (g', b'', true) | Err _ => (g, b'', false) end
                       end
             end end in
      if ok0 then
        in_child_b "metadatabundle" (fun bg b1 =>
          let existing := map fst (filter (fun kv => attr_is (snd kv) "emd_group_type" "metadata") (olinks bg)) in
          fold_left (fun (acc : R) kt => let '(g1, b2, ok) := acc in if ok then md_entry_b ao existing kt g1 b2 else acc)
                    mds (bg, b1, true)) rg b0
      else (rg, b0, false)
  end.

(* save(file, root, mode = a / ao, tree = True) onto a file that holds the root: diffmerge A, data is root *)
Definition append_root_b (ao : bool) (root : rnode) (f : obj) (b : B) : R :=
  in_child_b (rname root) (fun rg b0 =>
      let '(rg1, b1, ok1) := append_root_metadata_b ao (rmds root) rg b0 in
      if ok1 then append_branch_b ao root rg1 b1 else (rg1, b1, false)) f b.
