(* Legacy EMD 0.1 import (read_EMD_v0p1.py) and the refusal of everything else (read.py, utils._is_EMD_file). *)
From Emd Require Import Base.Prelude Model.H5 Model.Emd Generated.Tables.

Record ldim := LD { ld_tok : Z; ld_len : nat; ld_name : string; ld_units : string }.
Record larr := LA { la_name : string; la_shape : list nat; la_tok : Z; la_dims : list ldim }.
Inductive lres := LArray (a : larr) | LRoot (arrs : list larr).

Definition is_v01_group (o : obj) : bool :=
  match o with G a _ => match get a "emd_group_type" with Some (AInt 1) => true | _ => false end | D _ _ _ => false end.

(* h5py visititems: every object below the file, pre-order, links in name order; keep the 0.1 data groups *)
Fixpoint scan (o : obj) : list (string * obj) :=
  match o with
  | D _ _ _ => []
  | G _ l =>
      (fix go (l : list (string * obj)) : list (string * obj) :=
         match l with
         | [] => []
         | (k, c) :: r => (if is_v01_group c then [(k, c)] else []) ++ scan c ++ go r
         end) l
  end.
Fixpoint canon_links (o : obj) : obj :=        (* name-ordered iteration *)
  match o with
  | D a s t => D a s t
  | G a l => G a (ksort (map (fun kv => (fst kv, canon_links (snd kv))) l))
  end.

Definition read_dim01 (g : obj) (i : nat) (extent : nat) : res ldim :=
  match get (olinks g) ("dim" +++ nat_str (S i)) with
  | Some (D a [n] t) =>
      match get a "units", get a "name" with
      | Some (AStr u), Some (AStr nm) =>
          (* Array.__init__: a dim vector must have 2 entries or the axis extent *)
          if Nat.eqb n extent || Nat.eqb n 2 then Ok (LD t n nm u) else Err EOther
      | _, _ => Err ENotFound end
  | _ => Err ENotFound
  end.
Fixpoint read_dims01 (g : obj) (shape : list nat) (i : nat) : res (list ldim) :=
  match shape with
  | [] => Ok []
  | n :: s => do d <- read_dim01 g i n; do r <- read_dims01 g s (S i); Ok (d :: r)
  end.
Definition read_group01 (name : string) (g : obj) : res larr :=
  match get (olinks g) "data" with
  | Some (D _ shape t) => do ds <- read_dims01 g shape 0; Ok (LA name shape t ds)
  | _ => Err ENotFound
  end.

(* root.tree(arr): a later array of the same name replaces the earlier one *)
Fixpoint la_set (l : list larr) (a : larr) : list larr :=
  match l with [] => [a] | x :: r => if String.eqb (la_name a) (la_name x) then a :: r else x :: la_set r a end.

Definition read_legacy (f : obj) : res lres :=
  match scan (canon_links f) with
  | [] => Err EOther
  | gs =>
      do arrs <- fold_left (fun acc kg => do l <- acc; do a <- read_group01 (fst kg) (snd kg); Ok (l ++ [a])) gs (Ok []);
      match gs, arrs with
      | [_], [a] => Ok (LArray a)
      | _, _ => Ok (LRoot (fold_left la_set arrs []))
      end
  end.

(* read(path) on anything that is not an EMD 1.0 file *)
Definition read_other (s : slot) : res lres :=
  match s with
  | Absent => Err EAssert
  | Raw _ => Err EOther                       (* _is_EMD_file: not an HDF5 file *)
  | H5 f => if is_emd_file f then Err EOther   (* not this function's business *)
            else read_legacy f                 (* any failure inside is turned into the refusal *)
  end.
