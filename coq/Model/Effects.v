(* What write() does to the caller's objects (C19), on the forest model of Model/Forest.v:
   an unrooted node is put under a temporary Root for the duration of the save and handed back with
   _root = None (also when the save raises); Node.to_h5 writes each Metadata under its key and restores
   its name; a list argument is iterated, not consumed.  `ok` = whether the save itself succeeded: the
   effect on the objects is the same either way. *)
From Emd Require Import Base.Prelude Model.Forest.

(* the public view of a node: what the property lets the caller observe *)
Fixpoint public (t : tn) : tn :=
  match t with TN i b n sr _ m ks => TN i b n sr None m (map public ks) end.

(* save of the unrooted top-level node x: temporary root, add_to_tree, ..., finally: x._root = None *)
Definition save_unrooted (F : forest) (x : nat) (ok : bool) : forest :=
  map (fun t => if Nat.eqb (tid t) x
                then match t with TN i b n _ _ m ks => TN i b n None (Some [n]) m ks end
                else t) F.
(* save of a rooted node or of a Root: no effect *)
Definition save_rooted (F : forest) (x : nat) (ok : bool) : forest := F.
(* list save: every unrooted Node item goes through the shared root and comes back unrooted *)
Definition save_list (F : forest) (unrooted_items : list nat) (ok : bool) : forest :=
  fold_left (fun F x => save_unrooted F x ok) unrooted_items F.
