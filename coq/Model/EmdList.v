(* write.py: non-Node inputs (ndarray, dict, Metadata) and the list / tuple path. *)
From Emd Require Import Base.Prelude Model.H5 Model.Emd Generated.Tables.

(* an item of a list argument; LTop refers to a top-level runtime object and a path inside it *)
Inductive litem := LTop (tidx : nat) (tp : path) | LArr (tok : Z) (rank : nat) | LDict (tok : Z).

Inductive input :=
  | INode (tidx : nat) (tp : path)
  | IArr (tok : Z) (rank : nat)            (* numpy array -> Root 'root' holding Array 'np.array' *)
  | IDict (tok : Z)                        (* dict -> Root 'root' with Metadata 'dictionary' *)
  | IMd (name : string) (tok : Z)          (* Metadata -> Root 'root' carrying it *)
  | IList (items : list litem).

Definition dummy : rnode := RN CNode "?" 0 0 [] [].
Definition rooted (top : rnode) (tp : path) : rnode * path :=
  match rcls top with
  | CRoot => (top, tp)
  | _ => (RN CRoot (rname top +++ "_root") 0 0 [] [top], rname top :: tp)
  end.

Fixpoint fresh_arr (used : list string) (i fuel : nat) : nat :=
  match fuel with 0 => i | S f => if mem ("array_" +++ nat_str i) used then fresh_arr used (S i) f else i end.

(* root_savedlist: unrooted nodes first (list order), then arrays / dicts (list order) *)
Fixpoint others (items : list litem) (used : list string) (ia idc : nat) : list rnode * list (string * Z) :=
  match items with
  | [] => ([], [])
  | LArr t r :: rest =>
      let i := fresh_arr used ia (S (length used)) in
      let '(ks, ms) := others rest used (S i) idc in
      (RN CArray ("array_" +++ nat_str i) t r [] [] :: ks, ms)
  | LDict t :: rest =>
      let '(ks, ms) := others rest used ia (S idc) in (ks, ("dictionary_" +++ nat_str idc, t) :: ms)
  | LTop _ _ :: rest => others rest used ia idc
  end.

(* root_savedlist._branch[x.name] = x : a later item of the same name replaces the earlier one in place *)
Fixpoint rset (l : list rnode) (s : rnode) : list rnode :=
  match l with [] => [s] | c :: r => if String.eqb (rname s) (rname c) then s :: r else c :: rset r s end.

Fixpoint nodup_nat (l : list nat) : bool :=
  match l with [] => true | x :: r => negb (existsb (Nat.eqb x) r) && nodup_nat r end.

Definition is_root_top (tops : list rnode) (i : nat) : bool :=
  match rcls (nth i tops dummy) with CRoot => true | _ => false end.

Definition sequence (c : cfg) (s : slot) (calls : list (rnode * path * wargs)) : res unit * slot :=
  fold_left (fun acc call =>
      match acc with
      | (Ok _, s0) => let '(root, tp, a) := call in write_node c s0 root tp a
      | (Err e, s0) => (Err e, s0)
      end) calls (Ok tt, s).

Definition write_list (c : cfg) (s : slot) (tops : list rnode) (items : list litem) (a : wargs) : res unit * slot :=
  match run_prelude prelude_order (mode a) (emdpath a) (slot_exists s) with
  | Err e => (Err e, s)
  | Ok m =>
      let given_roots := flat_map (fun it => match it with LTop i [] => if is_root_top tops i then [nth i tops dummy] else [] | _ => [] end) items in
      let unrooted := flat_map (fun it => match it with LTop i [] => if is_root_top tops i then [] else [nth i tops dummy] | _ => [] end) items in
      let rooted_items := flat_map (fun it => match it with LTop i (x :: q) => [(i, x :: q)] | _ => [] end) items in
      let has_other := existsb (fun it => match it with LTop _ _ => false | _ => true end) items in
      (* refused before anything is touched: the same unrooted node twice; rooted items from different roots of one name *)
      let unrooted_idx := flat_map (fun it => match it with LTop i [] => if is_root_top tops i then [] else [i] | _ => [] end) items in
      let rooted_idx := map fst rooted_items in
      if negb (nodup_nat unrooted_idx)
         || existsb (fun i => existsb (fun j => negb (Nat.eqb i j) && String.eqb (rname (nth i tops dummy)) (rname (nth j tops dummy))) rooted_idx) rooted_idx
      then (Err EAssert, s) else
      let '(arrs, dicts) := others items (map rname unrooted) 0 0 in
      let saved := match unrooted, has_other with
                   | [], false => []
                   | _, _ => [RN CRoot "root_savedlist" 0 0 dicts (fold_left rset (unrooted ++ arrs) [])] end in
      (* one fresh, childless copy of each root that has selected nodes, carrying the root's metadata *)
      let root_copies :=
        fold_left (fun acc it => let r := nth (fst it) tops dummy in
                                 if mem (rname r) (map rname acc) then acc else acc ++ [RN CRoot (rname r) 0 0 (rmds r) []])
                  rooted_items [] in
      let '(m1, s1) := if mem m writemode then ("a", s) else if mem m overwritemode then ("a", Absent) else (m, s) in
      sequence c s1
        (map (fun r => (r, [], WA m1 (Some true) None)) (saved ++ given_roots)
         ++ map (fun r => (r, [], WA m1 (Some true) None)) root_copies
         ++ map (fun it => (nth (fst it) tops dummy, snd it, WA "ao" (Some false) (Some (rname (nth (fst it) tops dummy))))) rooted_items)
  end.

Definition write_input (c : cfg) (s : slot) (tops : list rnode) (x : input) (a : wargs) : res unit * slot :=
  match x with
  | INode i tp => let '(root, tp') := rooted (nth i tops dummy) tp in write_node c s root tp' a
  | IArr t r => write_node c s (RN CRoot "root" 0 0 [] [RN CArray "np.array" t r [] []]) ["np.array"] a
  | IDict t => write_node c s (RN CRoot "root" 0 0 [("dictionary", t)] []) [] a
  | IMd n t => write_node c s (RN CRoot "root" 0 0 [(n, t)] []) [] a
  | IList items => write_list c s tops items a
  end.
