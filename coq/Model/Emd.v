(* emdfile's tree-level writer: runtime trees, what each node writes, the helpers of utils.py and the
   dispatcher of write.py (Node inputs), one Gallina function per Python function, same branching.
   Payloads are templates parameterised by a content token (see DESIGN.md 3): the per-class codecs are
   modelled in detail elsewhere (array / metadata / pointlist models). *)
From Emd Require Import Base.Prelude Model.H5 Generated.Tables.

Inductive cls := CRoot | CNode | CArray | CPl | CPla.
Inductive rnode := RN (c : cls) (name : string) (tok : Z) (rank : nat) (mds : list (string * Z)) (kids : list rnode).

Definition rcls n := match n with RN c _ _ _ _ _ => c end.
Definition rname n := match n with RN _ s _ _ _ _ => s end.
Definition rtok n := match n with RN _ _ t _ _ _ => t end.
Definition rrank n := match n with RN _ _ _ r _ _ => r end.
Definition rmds n := match n with RN _ _ _ _ m _ => m end.
Definition rkids n := match n with RN _ _ _ _ _ k => k end.

Definition pyclass (c : cls) : string :=
  match c with CRoot => "Root" | CNode => "Node" | CArray => "Array" | CPl => "PointList" | CPla => "PointListArray" end.
(* the class attribute _emd_group_type, read from the generated table *)
Definition gtype (c : cls) : string :=
  match get class_group_type (pyclass c) with Some g => g | None => "?" end.

Fixpoint rget (l : list rnode) (k : string) : option rnode :=
  match l with [] => None | r :: rs => if String.eqb k (rname r) then Some r else rget rs k end.
(* node.tree('a/b') : walk the runtime tree by names *)
Fixpoint rwalk (n : rnode) (p : path) : option rnode :=
  match p with [] => Some n | k :: q => match rget (rkids n) k with Some c => rwalk c q | None => None end end.

(* ---------- what one node writes (Node.to_h5 + the subclass's datasets), children excluded *)
Definition tags (gt pc : string) : list (string * attrv) := [("emd_group_type", AStr gt); ("python_class", AStr pc)].
Definition md_group (tok : Z) : obj :=
  G (tags "metadata" "Metadata") [("tok", D [("type", AStr "number")] [] tok)].
Definition bundle (mds : list (string * Z)) : obj :=
  G [("emd_group_type", AStr "metadatabundle")] (map (fun kt => (fst kt, md_group (snd kt))) mds).

Definition dim_dataset (i : nat) : string * obj :=
  ("dim" +++ nat_str i, D [("name", AStr ("dim" +++ nat_str i)); ("units", AStr "pixels")] [2] 0).
Definition own (c : cls) (tok : Z) (rank : nat) : list (string * obj) :=
  match c with
  | CArray => ("data", D [("units", AStr "")] (repeat 3 rank) tok) :: map dim_dataset (seq 0 rank)
  | CPl => [("x", D [("dtype", AStr "int64")] [if Z.eqb tok 0 then 0 else 2] tok)]     (* token 0 = a PointList of no points *)
  | CPla => [("data", D [] [1; 2] tok)]
  | _ => []
  end.

Definition node_shallow (n : rnode) : obj :=
  G (tags (gtype (rcls n)) (pyclass (rcls n)))
    ((match rmds n with [] => [] | m => [("metadatabundle", bundle m)] end) ++ own (rcls n) (rtok n) (rrank n)).

(* ---------- utils.py *)
(* _write_single_node(group, data) : data.to_h5(group) *)
Definition write_single_node (n : rnode) (g : obj) : res obj := add_link (rname n) (node_shallow n) g.

Definition in_child (name : string) (w : obj -> res obj) (g : obj) : res obj := update_at g [name] w.

(* _write_tree(group, data): everything below data, not data itself *)
Fixpoint write_tree (n : rnode) (g : obj) : res obj :=
  fold_left (fun acc k => do g0 <- acc; do g1 <- write_single_node k g0; in_child (rname k) (write_tree k) g1)
            (rkids n) (Ok g).

Definition is_data_group (o : obj) : bool :=
  match o with G _ _ => match attr_str o "emd_group_type" with Some t => mem t EMD_data_group_types | None => false end
            | D _ _ _ => false end.
Definition has_gtype (o : obj) : bool :=
  match attr_str o "emd_group_type" with Some _ => true | None => match get (oattrs o) "emd_group_type" with Some _ => true | None => false end end.

(* _overwrite_single_node(group, data), acting on the PARENT group: rename, write new, relink the old
   node's data children, delete the old one *)
Definition tmpname (n : string) := "_tmp_" +++ n.
Definition overwrite_in_parent (n : rnode) (parent : obj) : res obj :=
  match get (olinks parent) (rname n) with
  | Some old =>
      do p1 <- move_link (rname n) (tmpname (rname n)) parent;
      do p2 <- write_single_node n p1;
      let keep := filter (fun kv => is_data_group (snd kv)) (ksort (olinks old)) in
      do p3 <- in_child (rname n) (fun newg => fold_left (fun acc kv => do g <- acc; add_link (fst kv) (snd kv) g) keep (Ok newg)) p2;
      del_link (tmpname (rname n)) p3
  | None => Err ENotFound
  end.

(* _append_branch(group, data, appendover) ; g = the file group matching runtime node n *)
Fixpoint append_branch (ao : bool) (n : rnode) (g : obj) : res obj :=
  fold_left (fun acc k =>
      do g0 <- acc;
      let groupkeys := map fst (filter (fun kv => is_group (snd kv) && has_gtype (snd kv)) (olinks g0)) in
      if mem (rname k) groupkeys
      then do g1 <- (if ao then overwrite_in_parent k g0 else Ok g0);
           in_child (rname k) (append_branch ao k) g1
      else do g1 <- write_single_node k g0; in_child (rname k) (write_tree k) g1)
    (rkids n) (Ok g).

(* _append_root_metadata(rootgroup, root, appendover) *)
Definition append_root_metadata (ao : bool) (mds : list (string * Z)) (rootgroup : obj) : res obj :=
  match mds with
  | [] => Ok rootgroup
  | _ =>
      do rg <- (if has (olinks rootgroup) "metadatabundle" then Ok rootgroup
                else add_link "metadatabundle" (bundle []) rootgroup);
      in_child "metadatabundle" (fun b =>
        let existing := map fst (filter (fun kv => attr_is (snd kv) "emd_group_type" "metadata") (olinks b)) in
        fold_left (fun acc kt =>
            do b0 <- acc;
            if mem (fst kt) existing
            then if ao then do b1 <- del_link (fst kt) b0; add_link (fst kt) (md_group (snd kt)) b1 else Ok b0
            else add_link (fst kt) (md_group (snd kt)) b0) mds (Ok b)) rg
  end.

(* _validate_treepath(rootgroup, treepath) *)
Inductive vt := VFalse | VInside (p : path) | VBeyond (p : path).
Fixpoint validate_names (g : obj) (names : list string) (acc : path) : vt :=
  match names with
  | [] => VInside acc
  | nm :: rest =>
      match g with
      | G _ l => match get l nm with
                 | None => match rest with [] => VBeyond acc | _ => VFalse end
                 | Some c => if is_group c then validate_names c rest (acc ++ [nm]) else VFalse
                 end
      | D _ _ _ => VFalse
      end
  end.
Definition validate_treepath (rootgroup : obj) (treepath : string) : vt :=
  validate_names rootgroup (remove_first_empty (split_slash treepath)) [].

(* ---------- header, detector *)
Record cfg := CFG { program : string; user : string }.
Definition hval_attr (c : cfg) (h : hval) : attrv :=
  match h with HStr s => AStr s | HInt z => AInt z | HUuid => AStr "<uuid>" | HProgram => AStr (program c) | HUser => AStr (user c) end.
Definition header (c : cfg) : list (string * attrv) := map (fun kv => (fst kv, hval_attr c (snd kv))) header_written.

Definition rootgroups (f : obj) : list string :=
  map fst (filter (fun kv => attr_is (snd kv) "emd_group_type" "root") (ksort (olinks f))).
Definition htest_ok (f : obj) (t : htest) : bool :=
  match t with
  | TPresent k => has (oattrs f) k
  | TEqStr k v => attr_is f k v
  | TEqInt k z => match get (oattrs f) k with Some (AInt y) => Z.eqb y z | _ => false end
  end.
Definition is_emd_file (f : obj) : bool :=
  forallb (htest_ok f) header_tested && negb (match rootgroups f with [] => true | _ => false end).

(* ---------- _write_from_root(file, root, data, tree) ; tp = path of data below root ([] = data is root) *)
Definition set_root_tag (name : string) (f : obj) : res obj :=
  in_child name (fun g => Ok (set_attr "emd_group_type" (AStr "root") g)) f.

Definition write_from_root (root : rnode) (tp : path) (tree : option bool) (f : obj) : res obj :=
  do f1 <- write_single_node root f;
  do f2 <- set_root_tag (rname root) f1;
  match tp with
  | [] => match tree with
          | Some false => Ok f2
          | _ => in_child (rname root) (write_tree root) f2
          end
  | _ => match rwalk root tp with
         | None => Err EAssert
         | Some data =>
             match tree with
             | Some false => in_child (rname root) (write_single_node data) f2
             | Some true => in_child (rname root) (fun rg => do rg1 <- write_single_node data rg;
                                                           in_child (rname data) (write_tree data) rg1) f2
             | None => in_child (rname root) (write_tree data) f2
             end
         end
  end.

(* ---------- write.py, Node inputs *)
Record wargs := WA { mode : string; tree : option bool; emdpath : option string }.

(* the prelude, in the order the source has it (generated) *)
Fixpoint run_prelude (steps : list prelude_step) (m : string) (ep : option string) (exists_ : bool) : res string :=
  match steps with
  | [] => Ok m
  | StepEmdpathOverride :: r =>
      run_prelude r (match ep with Some _ => if mem m appendovermode then m else "a" | None => m end) ep exists_
  | StepAssertMode :: r => if mem m allmodes then run_prelude r m ep exists_ else Err EAssert
  | StepNoroot :: r => run_prelude r m ep exists_
  | StepAssertTree :: r => run_prelude r m ep exists_
  | StepAssertNotExists :: r => if mem m writemode && exists_ then Err EAssert else run_prelude r m ep exists_
  end.

Definition slot_exists (s : slot) : bool := match s with Absent => false | _ => true end.

Definition fresh_file (c : cfg) (root : rnode) (tp : path) (tree : option bool) : res obj :=
  write_from_root root tp tree (G (header c) []).

Fixpoint is_prefix (a b : path) : option path :=       (* b = a ++ rest *)
  match a, b with
  | [], rest => Some rest
  | x :: a', y :: b' => if String.eqb x y then is_prefix a' b' else None
  | _, _ => None end.
Fixpoint path_eqb (a b : path) : bool :=
  match a, b with [], [] => true | x :: a', y :: b' => String.eqb x y && path_eqb a' b' | _, _ => false end.
Definition last_name (p : path) : string := last p "".
Definition init_path (p : path) : path := removelast p.

(* overwrite the node at absolute handle h (root :: path below root) with runtime node n whose
   stored treepath is ntp: asserts name and path agreement as the Python does *)
Definition overwrite_at (f : obj) (h : path) (n : rnode) (ntp : path) : res obj :=
  match h with
  | [] => Err EAssert
  | r :: below =>
      if String.eqb (rname n) (last_name h) && path_eqb below ntp
      then match ntp with
           | [] => Err EOther      (* parentpath computation of a root-level group: not a tree node *)
           | _ => update_at f (r :: init_path ntp) (overwrite_in_parent n)
           end
      else Err EAssert
  end.

(* appendover-and-branch block shared by the diffmerge branches:
     if appendover and tree in (True, False): target = _overwrite_single_node(target, data)
     if tree in (True, None): _append_branch(target, data, appendover) *)
Definition ow_and_branch (f : obj) (h : path) (n : rnode) (ntp : path) (ao : bool) (tree : option bool) : res obj :=
  do f1 <- (match tree with Some _ => if ao then overwrite_at f h n ntp else Ok f | None => Ok f end);
  match tree with
  | Some false => Ok f1
  | _ => update_at f1 h (append_branch ao n)
  end.

Definition parse_emdpath (ep : string) : string * string :=
  let ep1 := match ep with String c r => if Ascii.eqb c "/"%char then r else ep | EmptyString => ep end in
  match split_slash ep1 with
  | [] => ("", "")
  | r :: rest => (r, join_slash rest)
  end.

(* target of an emdpath inside rootgroup named rn: must exist (inside) *)
Definition emd_target (f : obj) (rn : string) (treepath : string) : res path :=
  match get (olinks f) rn with
  | None => Err EAssert
  | Some rg => match validate_treepath rg treepath with
               | VInside p => Ok (rn :: p)
               | _ => Err EOther end
  end.

Definition append_existing (root : rnode) (tp : path) (a : wargs) (m : string) (f : obj) : res obj :=
  let isroot := match tp with [] => true | _ => false end in
  match rwalk root tp with
  | None => Err EAssert
  | Some data =>
  let ao := mem m appendovermode in
  let inroots := mem (rname root) (rootgroups f) in
  match inroots, emdpath a with
  | false, None => write_from_root root tp (tree a) f
  | false, Some ep =>
      if match ep with EmptyString => true | _ => false end then Err EOther else
      let '(rn, treepath) := parse_emdpath ep in
      do h <- emd_target f rn treepath;
      match isroot, tree a with
      | true, Some false => Err EOther
      | true, _ => update_at f h (write_tree data)
      | false, Some false => update_at f h (write_single_node data)
      | false, Some true => update_at f h (fun g => do g1 <- write_single_node data g; in_child (rname data) (write_tree data) g1)
      | false, None => update_at f h (write_tree data)
      end
  | true, None =>
      do f1 <- in_child (rname root) (append_root_metadata ao (rmds root)) f;
      if isroot then
        match tree a with
        | Some false => Ok f1
        | _ => in_child (rname root) (append_branch ao data) f1
        end
      else
        match get (olinks f1) (rname root) with
        | None => Err EOther
        | Some rg =>
            match validate_names rg tp [] with
            | VFalse => Err EOther
            | VInside p =>
                let h := rname root :: p in
                match tree a with
                | Some true => ow_and_branch f1 h data tp ao (Some true)
                | Some false => if ao then overwrite_at f1 h data tp else Ok f1
                | None => update_at f1 h (append_branch ao data)
                end
            | VBeyond p =>
                let h := rname root :: p in
                match tree a with
                | Some true => update_at f1 h (fun g => do g1 <- write_single_node data g; in_child (rname data) (write_tree data) g1)
                | Some false => update_at f1 h (write_single_node data)
                | None => update_at f1 h (write_tree data)
                end
            end
        end
  | true, Some ep =>
      if match ep with EmptyString => true | _ => false end then Err EOther else
      let '(rn, treepath) := parse_emdpath ep in
      (* NB the target is looked up below f[root.name], whatever root the emdpath names *)
      do th <- emd_target f (rname root) treepath;
      do f1 <- in_child (rname root) (append_root_metadata ao (rmds root)) f;
      let tbelow := tl th in
      if isroot then
        match rwalk data tbelow with
        | None => Err EOther
        | Some d2 => ow_and_branch f1 th d2 tbelow ao (tree a)
        end
      else
        match get (olinks f1) (rname root) with
        | None => Err EOther
        | Some rg =>
            match validate_names rg tp [] with
            | VFalse => Err EOther
            | VBeyond sp =>
                if path_eqb sp tbelow
                then match tree a with
                     | Some true => update_at f1 th (fun g => do g1 <- write_single_node data g; in_child (rname data) (write_tree data) g1)
                     | Some false => update_at f1 th (write_single_node data)
                     | None => update_at f1 th (write_tree data)
                     end
                else Err EOther
            | VInside sp =>
                if path_eqb sp tbelow then ow_and_branch f1 th data tp ao (tree a)
                else if match lookup f1 th with Some tg => has (olinks tg) (last_name (rname root :: sp)) | None => false end
                then ow_and_branch f1 (rname root :: sp) data tp ao (tree a)
                else match is_prefix sp tbelow with
                     | Some rel =>
                         match rwalk data rel with
                         | None => Err EOther
                         | Some d2 => ow_and_branch f1 th d2 tbelow ao (tree a)
                         end
                     | None => Err EOther
                     end
            end
        end
  end
  end.

(* write(filepath, data, mode, tree, emdpath) for a Node `data` = node at tp in root.  Returns the
   outcome and the new content of the path. *)
Definition write_node (c : cfg) (s : slot) (root : rnode) (tp : path) (a : wargs) : res unit * slot :=
  match run_prelude prelude_order (mode a) (emdpath a) (slot_exists s) with
  | Err e => (Err e, s)
  | Ok m =>
      let '(m1, s1) := if mem m overwritemode then ("w", Absent) else (m, s) in
      if mem m1 writemode || ((mem m1 appendmode || mem m1 appendovermode) && negb (slot_exists s1))
      then match fresh_file c root tp (tree a) with
           | Ok f => (Ok tt, H5 f)
           | Err e => (Err e, Raw (-1))           (* a partially written new file: content unspecified *)
           end
      else match s1 with
           | H5 f => if is_emd_file f
                     then match append_existing root tp a m1 f with
                          | Ok f' => (Ok tt, H5 f')
                          | Err e => (Err e, Raw (-1))   (* content after a failed append: see the fault model *)
                          end
                     else (Err EAssert, s1)
           | _ => (Err EOther, s1)
           end
  end.
