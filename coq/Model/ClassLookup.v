(* Class lookup at read time (classes/utils.py: _get_class, _get_dependent_packages, _walk_module_find_classes)
   and the composition (Custom) layout.  Models Python's module objects as far as the lookup looks at them:
   a module has an opt-in hook flag and named members that are classes, modules or anything else;
   inspect.getmembers iterates members sorted by name. *)
From Emd Require Import Base.Prelude Generated.Tables.

Inductive member :=
  | MClass (cid : nat) (emd : bool)        (* a class object: identity, and whether Node or Metadata is in its MRO *)
  | MMod (hook : bool) (members : list (string * member))
  | MOther.
Definition modl := (bool * list (string * member))%type.     (* an entry of sys.modules: hook flag, namespace *)

Definition table := list (string * nat).        (* class name -> class identity; later entries override earlier ones *)
Definition tset (t : table) (k : string) (c : nat) : table := set t k c.

(* _walk_module_find_classes(mod, dic, depth, maxdepth) ; fuel = maxdepth - depth *)
Fixpoint walk (fuel : nat) (members : list (string * member)) (t : table) : table :=
  match fuel with
  | 0 => t                                   (* depth >= maxdepth: return *)
  | S fuel' =>
      fold_left (fun (t : table) (kv : string * member) =>
          match snd kv with
          | MClass c true => tset t (fst kv) c
          | MClass _ false => t
          | MMod true ms => walk fuel' ms t
          | MMod false _ => t
          | MOther => t
          end) (ksort members) t
  end.

(* _get_class: built-in classes first, then every hooked module of sys.modules *)
Definition class_table (builtins : table) (sysmods : list modl) : table :=
  fold_left (fun (t : table) (m : modl) => if fst m then walk walk_maxdepth (snd m) t else t) sysmods builtins.
Definition get_class (builtins : table) (sysmods : list modl) (python_class : string) : res nat :=
  match get (class_table builtins sysmods) python_class with
  | Some c => Ok c
  | None => Err EOther                        (* "Unknown classname": never a substitute class *)
  end.

(* ---------- the hook values as Python sees them *)
(* _get_dependent_packages takes a module of sys.modules when `module._emd_hook is True`;
   _walk_module_find_classes descends into a member module when `obj._emd_hook == True`  (so 1 or 1.0 opt in there) *)
Inductive hookv := HAbsent | HTrue | HOne | HFalse | HOtherValue.
Definition hook_top (h : hookv) : bool := match h with HTrue => true | _ => false end.
Definition hook_nested (h : hookv) : bool := match h with HTrue | HOne => true | _ => false end.
Inductive rmember := RClass (cid : nat) (emd : bool) | RMod (h : hookv) (members : list (string * rmember)) | ROther.
Fixpoint norm (m : rmember) : member :=
  match m with
  | RClass c e => MClass c e
  | RMod h ms => MMod (hook_nested h) (map (fun kv => (fst kv, norm (snd kv))) ms)
  | ROther => MOther
  end.
Definition rmodl := (hookv * list (string * rmember))%type.
Definition norm_top (m : rmodl) : modl := (hook_top (fst m), map (fun kv => (fst kv, norm (snd kv))) (snd m)).
Definition get_class_raw (builtins : table) (sysmods : list rmodl) (python_class : string) : res nat :=
  get_class builtins (map norm_top sysmods) python_class.

(* ---------- Custom: composition *)
(* a Custom node's group: its node-valued attributes written as groups retagged custom_<type>, then its children *)
Definition custom_links (md : bool) (attrs : list (string * string)) (kids : list (string * string)) : list (string * string) :=
  (if md then [("metadatabundle", "metadatabundle")] else []) ++
  map (fun kv => (fst kv, "custom_" +++ snd kv)) attrs ++ kids.       (* link name -> emd_group_type *)
(* _get_emd_attr_data: the links whose group type starts with custom_ , under their names *)
Definition attr_data (links : list (string * string)) : list string :=
  map fst (filter (fun kv => String.prefix "custom_" (snd kv)) links).
(* _populate_tree: the links whose group type is a plain data-node type *)
Definition tree_children (links : list (string * string)) : list string :=
  map fst (filter (fun kv => mem (snd kv) EMD_data_group_types) links).
