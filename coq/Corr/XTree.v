(* Correspondence evaluator for save/read scenarios (C01, C05, C07-C11, ...). *)
From Emd Require Import Base.Prelude Model.H5 Model.Emd Model.EmdList Model.Reader.

Fixpoint rnode_eqb (a b : rnode) : bool :=
  match a, b with
  | RN c n t r m ks, RN c' n' t' r' m' ks' =>
      String.eqb (pyclass c) (pyclass c') && String.eqb n n' && Z.eqb t t' && Nat.eqb r r'
      && list_eqb (fun x y => String.eqb (fst x) (fst y) && Z.eqb (snd x) (snd y)) (ksort m) (ksort m')
      && (fix go (l l' : list rnode) : bool :=
            match l, l' with [], [] => true | x :: xs, y :: ys => rnode_eqb x y && go xs ys | _, _ => false end) ks ks'
  end.
Fixpoint rcanon (n : rnode) : rnode :=
  match n with RN c s t r m ks => RN c s t r m (rsort (map rcanon ks)) end.
Definition rnode_equiv (a b : rnode) : bool := rnode_eqb (rcanon a) (rcanon b).

(* observed result of a read *)
Inductive oread := ORaised | ONames (l : list string) | OTree (t : rnode) (ret : rret) | OMd (k : string) (tok : Z).
Definition ret_eqb (a b : rret) : bool :=
  match a, b with RetRoot, RetRoot => true | RetNode p, RetNode q => path_eqb p q | RetMd k, RetMd k' => String.eqb k k' | _, _ => false end.
Definition read_matches (m : res rres) (o : oread) : bool :=
  match m, o with
  | Err _, ORaised => true
  | Ok (RNames l), ONames l' => list_eqb String.eqb l l'
  | Ok (RTree t r), OTree t' r' => rnode_equiv t t' && ret_eqb r r'
  | Ok (RTree t (RetMd k)), OMd k' tok => String.eqb k k' && match get (rmds t) k with Some z => Z.eqb z tok | None => false end
  | _, _ => false end.

Inductive sstep :=
  | SSave (fid : nat) (tidx : nat) (tp : path) (a : wargs) (raised : bool) (after : slot)
  | SSaveIn (fid : nat) (x : input) (a : wargs) (raised : bool) (after : slot)
  | SRead (fid : nat) (ep : option string) (tree : option bool) (o : oread)
  | SRaw (fid : nat) (s : slot).

Definition files := list (nat * slot).
Fixpoint fget (fs : files) (i : nat) : slot :=
  match fs with [] => Absent | (j, s) :: r => if Nat.eqb i j then s else fget r i end.
Definition fset (fs : files) (i : nat) (s : slot) : files := (i, s) :: fs.

Fixpoint run_steps (c : cfg) (tops : list rnode) (fs : files) (steps : list sstep) (i : nat) : list nat :=
  match steps with
  | [] => []
  | SRaw fid s :: rest => run_steps c tops (fset fs fid s) rest (S i)
  | SRead fid ep tr o :: rest =>
      (if read_matches (read (fget fs fid) ep tr) o then [] else [i]) ++ run_steps c tops fs rest (S i)
  | SSaveIn fid x a raised after :: rest =>
      let '(r, s') := write_input c (fget fs fid) tops x a in
      let ok := match r with
                | Ok _ => negb raised && slot_equiv s' after
                | Err _ => raised && match s' with Raw (-1) => true | _ => slot_equiv s' after end
                end in
      (if ok then [] else [i]) ++ run_steps c tops (fset fs fid after) rest (S i)
  | SSave fid tidx tp a raised after :: rest =>
      let '(r, s') := write_input c (fget fs fid) tops (INode tidx tp) a in
      let ok := match r with
                | Ok _ => negb raised && slot_equiv s' after
                | Err _ => raised && match s' with Raw (-1) => true | _ => slot_equiv s' after end
                end in
      (if ok then [] else [i]) ++ run_steps c tops (fset fs fid after) rest (S i)   (* resynchronise on the observed file *)
  end.

Definition tcase := (cfg * list rnode * list sstep)%type.
Definition check (x : tcase) : bool :=
  let '(c, tops, steps) := x in match run_steps c tops [] steps 0 with [] => true | _ => false end.
Definition failing_steps (x : tcase) : list nat := let '(c, tops, steps) := x in run_steps c tops [] steps 0.
