(* Correspondence evaluator for PointList / PointListArray (C04). *)
From Emd Require Import Base.Prelude Model.Pl Proofs.P04.

Definition field_eqb (a b : field) : bool :=
  String.eqb (f_name a) (f_name b) && dtype_eqb (f_dtype a) (f_dtype b) && Z.eqb (f_tok a) (f_tok b).
Definition pl_eqb (a b : pl) : bool := Nat.eqb (pl_len a) (pl_len b) && list_eqb field_eqb (pl_fields a) (pl_fields b).
Definition fentry_eqb (a b : string * (string * nat * Z)) : bool :=
  String.eqb (fst a) (fst b) && String.eqb (fst (fst (snd a))) (fst (fst (snd b)))
  && Nat.eqb (snd (fst (snd a))) (snd (fst (snd b))) && Z.eqb (snd (snd a)) (snd (snd b)).
Definition cell_eqb (a b : nat * Z) : bool := Nat.eqb (fst a) (fst b) && Z.eqb (snd a) (snd b).

Inductive pcase :=
  | PCPl (p : pl) (file : option pl_file) (back : option pl)
  | PCPla (p : pla) (back : option pla).
Definition check (c : pcase) : bool :=
  match c with
  | PCPl p (Some f) back =>
      list_eqb fentry_eqb (ksort (pl_store p)) (ksort f) &&
      match pl_load f, back with
      | Ok b, Some b' => pl_eqb b b'
      | Err _, None => true
      | _, _ => false end
  | PCPl p None _ => false
  | PCPla p (Some b) =>
      let m := pla_load (pla_shape p) (pla_dtype p) (faithful_h5 p) in
      Nat.eqb (fst (pla_shape m)) (fst (pla_shape b)) && Nat.eqb (snd (pla_shape m)) (snd (pla_shape b))
      && String.eqb (pla_dtype m) (pla_dtype b) && list_eqb (list_eqb cell_eqb) (pla_cells m) (pla_cells b)
  | PCPla p None => false
  end.
