(* Correspondence evaluator for C20: the generated function against observed behaviour. *)
From Coq Require Import ZArith Bool.
From Emd Require Import Base.Prelude Generated.Version Generated.Tables Proofs.P20.
Open Scope Z_scope.
(* a case: current, minimum, observed truthiness of emdfile._version_is_geq *)
Definition check (c : (Z * Z * Z) * (Z * Z * Z) * bool) : bool :=
  let '(cur, mn, obs) := c in Bool.eqb (truthy (version_is_geq cur mn)) obs.
(* a written file: observed _get_EMD_version *)
Definition check_written (v : Z * Z * Z) : bool :=
  match written_version with
  | Some (a, b, r) => let '(x, y, z) := v in (a =? x) && (b =? y) && (r =? z)
  | None => false end.
