(* Correspondence for C06: the class table against the real _get_class over synthesised module graphs,
   and the Custom group layout against real files. *)
From Emd Require Import Base.Prelude Generated.Tables Model.ClassLookup.

Definition pair_eqb (a b : string * string) : bool := String.eqb (fst a) (fst b) && String.eqb (snd a) (snd b).

Inductive ccase :=
  (* built-in table as observed, sys.modules entries in order, queries: class name -> identity returned (None = raised) *)
  | CLookup (builtins : table) (sysmods : list rmodl) (queries : list (string * option nat))
  (* a Custom node: node-valued attributes (name, group type of the attribute's class), tree children (name, group type);
     observed: the links of its group with their emd_group_type (h5py order), the keys handed to the reader hook,
     the children of the node read back *)
  | CCustom (md : bool) (attrs kids : list (string * string)) (links : list (string * string)) (hook_keys children : list string).

Definition check (c : ccase) : bool :=
  match c with
  | CLookup b sm qs =>
      forallb (fun q => match get_class_raw b sm (fst q), snd q with
                        | Ok c, Some c' => Nat.eqb c c'
                        | Err _, None => true
                        | _, _ => false end) qs
  | CCustom md attrs kids links hook_keys children =>
      list_eqb pair_eqb (ksort (custom_links md attrs kids)) links
      && list_eqb String.eqb (attr_data links) hook_keys
      && list_eqb String.eqb (tree_children links) children
  end.
