(* Correspondence evaluator for the Metadata value codec (C03, C15, C16). *)
From Coq Require Import ZArith List Bool PrimFloat.
From Emd Require Import Base.Prelude Model.Md.

Definition dset_eqb (a b : dset) : bool :=
  match a, b with
  | DsBytes s, DsBytes s' => String.eqb s s'
  | DsSc x, DsSc y => sc_same x y
  | DsVec xs, DsVec ys => list_eqb sc_same xs ys
  | DsArr dt sh t, DsArr dt' sh' t' => String.eqb dt dt' && list_eqb Nat.eqb sh sh' && Z.eqb t t'
  | _, _ => false end.
Fixpoint item_eqb (a b : item) : bool :=
  match a, b with
  | IData t d, IData t' d' => String.eqb t t' && dset_eqb d d'
  | IGroup t ms, IGroup t' ms' => String.eqb t t' && list_eqb dset_eqb ms ms'
  | IDict kvs, IDict kvs' =>
      Nat.eqb (length kvs) (length kvs') &&
      (fix go (l : list (string * item)) : bool :=
         match l with [] => true
         | (k, v) :: r => match get kvs' k with Some v' => item_eqb v v' | None => false end && go r end) kvs
  | _, _ => false end.
Fixpoint mval_eqb (a b : mval) : bool :=
  match a, b with
  | MNone, MNone => true | MOther, MOther => true
  | MStr s, MStr s' => String.eqb s s' | MBytes s, MBytes s' => String.eqb s s'
  | MSc x, MSc y => sc_same x y | MNp x, MNp y => sc_same x y
  | MArr dt sh t, MArr dt' sh' t' => String.eqb dt dt' && list_eqb Nat.eqb sh sh' && Z.eqb t t'
  | MTuple xs, MTuple ys | MList xs, MList ys =>
      (fix go (l l' : list mval) : bool := match l, l' with [], [] => true | x :: r, y :: r' => mval_eqb x y && go r r' | _, _ => false end) xs ys
  | MDict kvs, MDict kvs' =>
      Nat.eqb (length kvs) (length kvs') &&
      (fix go (l : list (string * mval)) : bool :=
         match l with [] => true
         | (k, v) :: r => match get kvs' k with Some v' => mval_eqb v v' | None => false end && go r end) kvs
  | _, _ => false end.

(* case: value, observed item in the file (None = save raised), observed read-back (None = read raised / no file) *)
Definition mcase := (mval * option item * option mval)%type.
Definition check (c : mcase) : bool :=
  let '(v, oit, oback) := c in
  match save_item v, oit with
  | Ok it, Some it' => item_eqb it it' &&
      match read_item it', oback with
      | Ok b, Some b' => mval_eqb b b'
      | Err _, None => true
      | _, _ => false end
  | Err _, None => true
  | _, _ => false end.
