(* Correspondence evaluator for Array calibrations and their HDF5 codec (C14, C02, C16). *)
From Coq Require Import ZArith List Bool PrimFloat Uint63 FloatOps SpecFloat.
From Emd Require Import Base.Prelude Model.Arr.

Definition sf_eqb (a b : spec_float) : bool :=
  match a, b with
  | S754_zero s, S754_zero s' => Bool.eqb s s'
  | S754_infinity s, S754_infinity s' => Bool.eqb s s'
  | S754_nan, S754_nan => true
  | S754_finite s m e, S754_finite s' m' e' => Bool.eqb s s' && Pos.eqb m m' && Z.eqb e e'
  | _, _ => false end.
(* bit-exact (up to the NaN payload) *)
Definition num_same (a b : num) : bool :=
  match a, b with
  | NI x, NI y => Z.eqb x y
  | NF x, NF y => sf_eqb (Prim2SF x) (Prim2SF y)
  | _, _ => false end.
Definition dimv_same (a b : dimv) : bool :=
  match a, b with
  | VNum xs, VNum ys => list_eqb num_same xs ys
  | VStr xs, VStr ys => list_eqb String.eqb xs ys
  | _, _ => false end.
Definition arr_same (a b : arr) : bool :=
  list_eqb Nat.eqb (a_shape a) (a_shape b) && opt_eqb Nat.eqb (a_depth a) (a_depth b)
  && list_eqb dimv_same (a_dims a) (a_dims b) && list_eqb String.eqb (a_units a) (a_units b)
  && list_eqb String.eqb (a_names a) (a_names b) && list_eqb String.eqb (a_labels a) (a_labels b).

(* numpy array conversion of a numeric list: any float makes all float *)
Definition np_conv (d : dimv) : dimv :=
  match d with
  | VNum xs => if existsb (fun x => match x with NF _ => true | NI _ => false end) xs
               then VNum (map (fun x => NF (tofloat x)) xs) else d
  | _ => d end.
Definition stored_same (a b : stored) : bool :=
  list_eqb Nat.eqb (s_datashape a) (s_datashape b)
  && list_eqb dimv_same (map np_conv (s_dims a)) (s_dims b) && list_eqb String.eqb (s_units a) (s_units b)
  && list_eqb String.eqb (s_names a) (s_names b) && opt_eqb (list_eqb String.eqb) (s_labels a) (s_labels b).

Inductive aop :=
  | ASetDim (n : nat) (d : dimarg) (u nm : option string) (obs : option arr)
  | ASetUnits (n : nat) (u : string) (obs : option arr)
  | ASetName (n : nat) (s : string) (obs : option arr)
  | ASlice (l : string) (obs : option (nat * arr))
  | ASave (obs_file : option stored) (obs_back : option arr).

Definition res_matches {A} (eqb : A -> A -> bool) (m : res A) (o : option A) : bool :=
  match m, o with Ok x, Some y => eqb x y | Err _, None => true | _, _ => false end.

Fixpoint run_ops (a : arr) (ops : list aop) (i : nat) : list nat :=
  match ops with
  | [] => []
  | ASetDim n d u nm obs :: r =>
      let m := set_dim a n d u nm in
      (if res_matches arr_same m obs then [] else [i]) ++ run_ops (match obs with Some a' => a' | None => a end) r (S i)
  | ASetUnits n u obs :: r =>
      let m := set_dim_units a n u in
      (if res_matches arr_same m obs then [] else [i]) ++ run_ops (match obs with Some a' => a' | None => a end) r (S i)
  | ASetName n s obs :: r =>
      let m := set_dim_name a n s in
      (if res_matches arr_same m obs then [] else [i]) ++ run_ops (match obs with Some a' => a' | None => a end) r (S i)
  | ASlice l obs :: r =>
      (if res_matches (fun x y => Nat.eqb (fst x) (fst y) && arr_same (snd x) (snd y)) (get_slice a l) obs then [] else [i]) ++ run_ops a r (S i)
  | ASave of ob :: r =>
      let st := arr_store a in
      (match of with
       | None => [i]                                   (* the model never refuses a calibrated array *)
       | Some f => if stored_same st f
                   then (if res_matches arr_same (arr_load f) ob then [] else [i])
                   else [i]
       end) ++ run_ops a r (S i)
  end.

(* case: data shape, dims, units, names, labels, observed object after construction (None = raised), operations *)
Definition acase := (list nat * list dimarg * list string * list string * labelarg * option arr * list aop)%type.
Definition check (c : acase) : bool :=
  let '(shape, dims, units, names, labels, obs, ops) := c in
  let m := arr_init shape dims units names labels in
  res_matches arr_same m obs && match obs with Some a => match run_ops a ops 1 with [] => true | _ => false end | None => true end.
