From Emd Require Import Base.Prelude Model.H5 Model.Emd Model.Legacy.
Definition ldim_eqb (a b : ldim) : bool :=
  Z.eqb (ld_tok a) (ld_tok b) && Nat.eqb (ld_len a) (ld_len b) && String.eqb (ld_name a) (ld_name b) && String.eqb (ld_units a) (ld_units b).
Definition larr_eqb (a b : larr) : bool :=
  String.eqb (la_name a) (la_name b) && list_eqb Nat.eqb (la_shape a) (la_shape b) && Z.eqb (la_tok a) (la_tok b) && list_eqb ldim_eqb (la_dims a) (la_dims b).
Fixpoint lainsert (x : larr) (l : list larr) : list larr :=
  match l with [] => [x] | y :: r => if String.leb (la_name x) (la_name y) then x :: l else y :: lainsert x r end.
Definition lasort (l : list larr) := fold_right lainsert [] l.
Definition lres_eqb (a b : lres) : bool :=
  match a, b with
  | LArray x, LArray y => larr_eqb x y
  | LRoot xs, LRoot ys => list_eqb larr_eqb (lasort xs) (lasort ys)
  | _, _ => false end.
(* case: the file (slot), observed result (None = read raised) *)
Definition lcase := (slot * option lres)%type.
Definition check (c : lcase) : bool :=
  let '(s, o) := c in
  match read_other s, o with
  | Ok r, Some r' => lres_eqb r r'
  | Err _, None => true
  | _, _ => false end.
