(* Correspondence evaluator for the forest operations (C12, C13). *)
From Emd Require Import Base.Prelude Model.Forest.

Definition md_eqb (a b : mdv) : bool :=
  Nat.eqb (md_id a) (md_id b) && String.eqb (md_name a) (md_name b) && Z.eqb (md_tok a) (md_tok b).
Definition mdkv_eqb (a b : string * mdv) : bool := String.eqb (fst a) (fst b) && md_eqb (snd a) (snd b).

Fixpoint tn_eqb (a b : tn) : bool :=
  match a, b with
  | TN i r n sr sp m ks, TN i' r' n' sr' sp' m' ks' =>
      Nat.eqb i i' && Bool.eqb r r' && String.eqb n n' && opt_eqb Nat.eqb sr sr'
      && opt_eqb (list_eqb String.eqb) sp sp' && list_eqb mdkv_eqb m m'
      && (fix go (l l' : list tn) : bool :=
            match l, l' with
            | [], [] => true
            | x :: xs, y :: ys => tn_eqb x y && go xs ys
            | _, _ => false end) ks ks'
  end.

Fixpoint tinsert (x : tn) (l : list tn) : list tn :=
  match l with [] => [x] | y :: r => if Nat.leb (tid x) (tid y) then x :: l else y :: tinsert x r end.
Definition tsort (l : list tn) : list tn := fold_right tinsert [] l.

(* a case: initial objects, counters, operations, observed ok-flags, observed final forest (tops sorted by id) *)
Definition fcase := (list tn * nat * nat * list op * list bool * list tn)%type.
Definition check (c : fcase) : bool :=
  let '(init, nid, nmd, ops, oks, final) := c in
  let '(s, bs) := run (ST init nid nmd) ops in
  list_eqb Bool.eqb bs oks && list_eqb tn_eqb (tsort (trees s)) final.

(* C12 looks at shape and stamps only: metadata erased on both sides *)
Fixpoint erase_md (t : tn) : tn :=
  match t with TN i r n sr sp _ ks => TN i r n sr sp [] (map erase_md ks) end.
Definition check_nomd (c : fcase) : bool :=
  let '(init, nid, nmd, ops, oks, final) := c in
  let '(s, bs) := run (ST init nid nmd) ops in
  list_eqb Bool.eqb bs oks && list_eqb tn_eqb (map erase_md (tsort (trees s))) (map erase_md final).
