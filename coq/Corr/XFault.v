(* Correspondence for the fault model: the file observed after a faulted whole-root append must equal
   the model's state for SOME fault budget (the real code performs more, finer mutations than the
   model's ticks; every one of them falls between two model ticks, see DESIGN.md C18), restricted to
   what C18 speaks about: the nodes that were in the file before, and scratch names. *)
From Emd Require Import Base.Prelude Model.H5 Model.Emd Model.Fault.

(* own content of the object at a path: attributes, datasets and the metadata bundle; child groups dropped *)
Definition own_of (o : obj) : obj :=
  match o with
  | G a l => G a (filter (fun kv => negb (is_group (snd kv)) || String.eqb (fst kv) "metadatabundle") l)
  | D _ _ _ => o end.
Definition proj (f : obj) (paths : list path) : list (option obj) :=
  map (fun p => option_map own_of (lookup f p)) paths.
Fixpoint tmp_names (o : obj) : list string :=
  match o with
  | D _ _ _ => []
  | G _ l => (fix go (l : list (string * obj)) : list string :=
                match l with [] => []
                | (k, c) :: r => (if String.prefix "_tmp_" k then [k] else []) ++ tmp_names c ++ go r end) l
  end.
Definition proj_eqb (a b : list (option obj)) : bool := list_eqb (opt_eqb obj_equiv) a b.

(* case: file before, root, ao, old node paths, observed file after, observed raised *)
Definition fcase := (obj * rnode * bool * list path * obj * bool)%type.
Definition check (c : fcase) : bool :=
  let '(f, root, ao, paths, after, raised) := c in
  let obs := proj after paths in
  let fuel := 200 in
  if raised then
    existsb (fun k => let '(f', _, ok) := append_root_b ao root f (Some k) in
                      negb ok && proj_eqb (proj f' paths) obs && list_eqb String.eqb (ssort (tmp_names f')) (ssort (tmp_names after)))
            (seq 0 fuel)
    || (let '(f', _, ok) := append_root_b ao root f None in
        negb ok && proj_eqb (proj f' paths) obs)
  else
    let '(f', _, ok) := append_root_b ao root f None in ok && obj_equiv f' after.
