(* Base definitions shared by every model file: results, strings, association
   lists (Python dicts / HDF5 link tables), small list utilities.  No proofs
   of properties here, only elementary facts. *)
From Coq Require Export String Ascii List Bool Arith ZArith NArith Lia.
Export ListNotations.
Open Scope string_scope.
Open Scope list_scope.
Infix "+++" := String.append (right associativity, at level 60).

(* Python exceptions, collapsed.  The correspondence compares raised / not raised only. *)
Inductive err := ENameExists | ENotFound | EAssert | EUnsupported | ENumpy | EH5 | EInjected | EOther.
Inductive res (A : Type) := Ok (a : A) | Err (e : err).
Arguments Ok {A} a.
Arguments Err {A} e.
Definition bind {A B} (r : res A) (f : A -> res B) : res B :=
  match r with Ok a => f a | Err e => Err e end.
Notation "'do' x <- r ; k" := (bind r (fun x => k)) (at level 200, x pattern, r at level 100, k at level 200).
Definition is_ok {A} (r : res A) : bool := match r with Ok _ => true | Err _ => false end.

Definition oseq {A} (a b : option A) : option A := match a with Some r => Some r | None => b end.

(* association lists keyed by strings *)
Section AList.
  Context {A : Type}.
  Fixpoint get (l : list (string * A)) (k : string) : option A :=
    match l with [] => None | (k', v) :: r => if String.eqb k k' then Some v else get r k end.
  Definition has (l : list (string * A)) (k : string) : bool :=
    match get l k with Some _ => true | None => false end.
  (* Python dict assignment: overwrite in place, else append *)
  Fixpoint set (l : list (string * A)) (k : string) (v : A) : list (string * A) :=
    match l with [] => [(k, v)]
    | (k', v') :: r => if String.eqb k k' then (k, v) :: r else (k', v') :: set r k v end.
  Fixpoint del (l : list (string * A)) (k : string) : list (string * A) :=
    match l with [] => [] | (k', v) :: r => if String.eqb k k' then r else (k', v) :: del r k end.
  Fixpoint rename (l : list (string * A)) (a b : string) : list (string * A) :=
    match l with [] => [] | (k, v) :: r => if String.eqb k a then (b, v) :: r else (k, v) :: rename r a b end.
  Definition keys (l : list (string * A)) : list string := map fst l.
End AList.

Fixpoint mem (s : string) (l : list string) : bool :=
  match l with [] => false | x :: r => if String.eqb s x then true else mem s r end.

Lemma mem_In s l : mem s l = true <-> In s l.
Proof.
  induction l as [|x r IH]; cbn; [split; [discriminate|tauto]|].
  destruct (String.eqb s x) eqn:E.
  - apply String.eqb_eq in E. subst. split; auto.
  - rewrite IH. split; [auto|]. intros [H|H]; [subst; rewrite String.eqb_refl in E; discriminate|exact H].
Qed.

Lemma get_set_same {A} (l : list (string * A)) k v : get (set l k v) k = Some v.
Proof.
  induction l as [|[k' v'] l IH]; cbn; [rewrite String.eqb_refl; reflexivity|].
  destruct (String.eqb k k') eqn:E; cbn; rewrite ?E, ?String.eqb_refl; auto.
Qed.
Lemma get_set_other {A} (l : list (string * A)) k k2 v : k2 <> k -> get (set l k v) k2 = get l k2.
Proof.
  intros Hn. induction l as [|[k' v'] l IH]; cbn.
  - destruct (String.eqb k2 k) eqn:E; [apply String.eqb_eq in E; congruence|reflexivity].
  - destruct (String.eqb k k') eqn:E; cbn.
    + apply String.eqb_eq in E; subst.
      destruct (String.eqb k2 k') eqn:E2; [apply String.eqb_eq in E2; congruence|reflexivity].
    + destruct (String.eqb k2 k'); auto.
Qed.
Lemma get_In {A} (l : list (string * A)) k v : get l k = Some v -> In (k, v) l.
Proof.
  induction l as [|[k' v'] l IH]; cbn; [discriminate|].
  destruct (String.eqb k k') eqn:E; [apply String.eqb_eq in E; subst; intros H; injection H as <-; auto|auto].
Qed.
Lemma get_in_keys {A} (l : list (string * A)) k v : get l k = Some v -> In k (keys l).
Proof. intros H. apply get_In in H. apply in_map_iff. exists (k, v). auto. Qed.
Lemma get_none_notin {A} (l : list (string * A)) k : get l k = None <-> ~ In k (keys l).
Proof.
  induction l as [|[k' v'] l IH]; cbn; [tauto|].
  destruct (String.eqb k k') eqn:E.
  - apply String.eqb_eq in E; subst. split; [discriminate|tauto].
  - rewrite IH. split; [|tauto]. intros H [H1|H1]; [subst; rewrite String.eqb_refl in E; discriminate|tauto].
Qed.

(* decimal rendering of naturals, as Python's str(int) for n >= 0 *)
Require Import Coq.Numbers.DecimalString.
Definition nat_str (n : nat) : string := NilZero.string_of_uint (Nat.to_uint n).

(* insertion sort by byte order: the order in which h5py iterates links *)
Fixpoint sinsert (x : string) (l : list string) : list string :=
  match l with [] => [x] | y :: r => if String.leb x y then x :: l else y :: sinsert x r end.
Definition ssort (l : list string) : list string := fold_right sinsert [] l.

Section KSort.
  Context {A : Type}.
  Fixpoint kinsert (x : string * A) (l : list (string * A)) : list (string * A) :=
    match l with [] => [x] | y :: r => if String.leb (fst x) (fst y) then x :: l else y :: kinsert x r end.
  Definition ksort (l : list (string * A)) : list (string * A) := fold_right kinsert [] l.
End KSort.

Fixpoint list_eqb {A} (eqb : A -> A -> bool) (a b : list A) : bool :=
  match a, b with
  | [], [] => true
  | x :: a', y :: b' => eqb x y && list_eqb eqb a' b'
  | _, _ => false
  end.
Definition opt_eqb {A} (eqb : A -> A -> bool) (a b : option A) : bool :=
  match a, b with Some x, Some y => eqb x y | None, None => true | _, _ => false end.

(* indices of the cases on which a boolean check fails (correspondence output) *)
Fixpoint mism_from {A} (chk : A -> bool) (i : nat) (l : list A) : list nat :=
  match l with [] => [] | x :: r => if chk x then mism_from chk (S i) r else i :: mism_from chk (S i) r end.
Definition mismatches {A} (chk : A -> bool) (l : list A) : list nat := mism_from chk 0 l.

Lemma NoDup_app_inv {A} (l1 l2 : list A) :
  NoDup (l1 ++ l2) -> NoDup l1 /\ NoDup l2 /\ (forall x, In x l1 -> ~ In x l2).
Proof.
  induction l1 as [|a l IH]; cbn; intros H.
  - split; [constructor|]. split; [exact H|]. intros x [].
  - inversion H as [|? ? Hn Hd]; subst. destruct (IH Hd) as (H1 & H2 & H3).
    split; [constructor; [intros Hi; apply Hn; apply in_app_iff; left; exact Hi|exact H1]|].
    split; [exact H2|]. intros x [<-|Hx]; [intros Hi; apply Hn; apply in_app_iff; right; exact Hi|apply H3; exact Hx].
Qed.
Lemma NoDup_app_intro {A} (l1 l2 : list A) :
  NoDup l1 -> NoDup l2 -> (forall x, In x l1 -> ~ In x l2) -> NoDup (l1 ++ l2).
Proof.
  induction l1 as [|a l IH]; cbn; intros H1 H2 H3; [exact H2|].
  inversion H1; subst. constructor.
  - rewrite in_app_iff. intros [Hi|Hi]; [tauto|]. eapply H3; [left; reflexivity|exact Hi].
  - apply IH; auto.
Qed.
